-------------------------------- MODULE Rank --------------------------------
(***************************************************************************)
(* Scores, sort keys and order (C10), cursor walks (C11), and relational  *)
(* equalities between executions (C09, C20).                               *)
(*                                                                         *)
(* Numbers: TLC has 32-bit integers and no reals.  Scores are fixed point *)
(* with scale S = 10^4; observed f32 scores additionally come as `sbits`, *)
(* an order-preserving integer image of the f32 bit pattern, so that       *)
(* ORDER is judged exactly and only score VALUES use a tolerance.          *)
(***************************************************************************)
EXTENDS Search, Json

S == 10000

NoDupSeqR(s) == Cardinality(SeqToSet(s)) = Len(s)

MulDiv(a, b, c) == (a \div c) * b + ((a % c) * b) \div c      \* a*b/c without overflow

(* natural logarithm of num/den (positive integers < 10^5) times S *)
RECURSIVE LnRange(_, _, _)
LnRange(num, den, k) ==          \* bring num/den into [1,2): returns <<num, den, k>>
  IF num >= 2 * den THEN LnRange(num, 2 * den, k + 1)
  ELSE IF num < den THEN LnRange(2 * num, den, k - 1)
  ELSE <<num, den, k>>

LnS(num, den) ==                  \* internal scale 10^5, result scale S
  LET r == LnRange(num, den, 0)
      T == 100000
      y == ((r[1] - r[2]) * T) \div (r[1] + r[2])          \* (m-1)/(m+1) in [0, 1/3)
      y2 == (y * y) \div T
      y3 == (y2 * y) \div T
      y5 == (y3 * y2) \div T
      y7 == (y5 * y2) \div T
      y9 == (y7 * y2) \div T
      v == r[3] * 69315 + 2 * (y + y3 \div 3 + y5 \div 5 + y7 \div 7 + y9 \div 9)
  IN IF v >= 0 THEN (v + 5) \div 10 ELSE 0 - ((5 - v) \div 10)

ASSUME LnS(2, 1) \in 6929..6933
ASSUME LnS(10, 1) \in 23022..23030
ASSUME LnS(101, 1) \in 46147..46155
ASSUME LnS(1, 2) \in (0 - 6933)..(0 - 6929)

-----------------------------------------------------------------------------
(* BM25 with k1 = 1.2, b = 0.75 and the statistics of the document's       *)
(* segment: N = live documents, df = documents of the segment holding the  *)
(* term, avgdl = total field length / documents of the segment.            *)

SegDocs(docs, s) == {d \in docs : d.seg = s}

Df(D, docs, s, f, kind, t) == Cardinality({d \in SegDocs(docs, s) : DocHas(D, d, f, kind, t)})

RECURSIVE SumLens(_, _)
SumLens(S0, f) == IF S0 = {} THEN 0
                  ELSE LET d == CHOOSE x \in S0 : TRUE IN FieldLen(d, f) + SumLens(S0 \ {d}, f)

IdfS(n, df) ==
  LET num == 2 * n - 2 * df + 1
      den == 2 * df + 1
  IN IF num <= 0 THEN S ELSE MaxI(0, LnS(num, den)) + S

(* score of one term for document d, times S *)
Bm25S(D, docs, d, f, kind, t) ==
  LET seg == SegDocs(docs, d.seg)
      n == Cardinality({x \in seg : x.live})
      df == Df(D, docs, d.seg, f, kind, t)
      tf == TermFreq(D, d, f, kind, t)
      idf == IdfS(n, df)
  IN IF tf = 0 THEN 0
     ELSE IF kind = "kw" THEN MulDiv(idf, 22 * tf, 10 * tf + 12)       \* no field lengths: norm = 1
     ELSE LET total == SumLens(seg, f)
              nd == Cardinality(seg)
              dl == FieldLen(d, f)
          IN IF total = 0 THEN MulDiv(idf, 22 * tf, 10 * tf + 12)
             ELSE MulDiv(idf, 22 * tf * total, 10 * tf * total + 3 * total + 9 * dl * nd)

Weighted(x, w) == MulDiv(x, w, S)

-----------------------------------------------------------------------------
(* Score tree.  EMPTY = "no scorer" (match_all, phrase, ...): the document *)
(* then scores 1.                                                          *)
EMPTY == 0 - 1

RECURSIVE SumSeq(_)
SumSeq(s) == IF s = <<>> THEN 0 ELSE Head(s) + SumSeq(Tail(s))
RECURSIVE MaxSeq(_)
MaxSeq(s) == IF Len(s) = 1 THEN s[1] ELSE MaxI(Head(s), MaxSeq(Tail(s)))

RECURSIVE SumFn(_, _)
SumFn(f, X) == IF X = {} THEN 0 ELSE LET x == CHOOSE y \in X : TRUE IN f[x] + SumFn(f, X \ {x})
SumSet(X, F(_)) == SumFn([x \in X |-> F(x)], X)

AltScore(D, docs, d, alt) ==
  LET one(t) == Weighted(Bm25S(D, docs, d, alt.f, alt.kind, t), alt.w) IN
  SumSet(SeqToSet(alt.toks), one)

TermScore(D, docs, d, n) ==
  LET one(i) == AltScore(D, docs, d, n.alts[i]) IN SumSet(DOMAIN n.alts, one)

ExpansionScore(D, docs, d, n) ==
  LET one(t) == Weighted(Bm25S(D, docs, d, n.f, n.kind, t), n.w) IN
  SumSet(ExpansionTerms(D, docs, n), one)

SelectSeq2(s, P(_)) == SelectSeq(s, P)

Combine(vals, mode, tie) ==      \* vals: sequence of non-EMPTY child values
  IF vals = <<>> THEN EMPTY
  ELSE IF Len(vals) = 1 THEN vals[1]
  ELSE IF mode = "sum" THEN SumSeq(vals)
  ELSE LET mx == MaxSeq(vals) IN mx + MulDiv(SumSeq(vals) - mx, tie, S)

RECURSIVE NodeVal(_, _, _, _)
NodeVal(D, docs, d, q) ==
  CASE q.k = "term" -> IF q.sc THEN TermScore(D, docs, d, q) ELSE EMPTY
    [] q.k \in {"prefix", "wild", "regex"} ->
         \* an expansion that finds no term in the document's segment contributes no scorer at all
         \* (the property does not say whether "no term" scores 0 or is absent; the code drops it)
         IF q.sc /\ ExpansionTerms(D, SegDocs(docs, d.seg), q) # {} THEN ExpansionScore(D, docs, d, q) ELSE EMPTY
    [] q.k = "qs" ->
         IF q.groups = <<>> \/ ~q.groups[1].sc THEN EMPTY
         ELSE IF q.comb = "sum"
           THEN Combine([i \in DOMAIN q.groups |-> TermScore(D, docs, d, q.groups[i])], "sum", 0)
         ELSE IF q.comb = "best_fields"
           THEN LET nf == Len(q.groups[1].alts)
                    perField(j) == LET one(i) == AltScore(D, docs, d, q.groups[i].alts[j]) IN
                                   SumSet(DOMAIN q.groups, one)
                IN IF nf = 0 THEN EMPTY ELSE Combine([j \in 1..nf |-> perField(j)], "dismax", q.tie)
         ELSE LET one(i) == TermScore(D, docs, d, q.groups[i]) IN SumSet(DOMAIN q.groups, one)
    [] q.k = "bool" ->
         LET kids == q.must \o q.should \o q.mustnot
             vals == [i \in DOMAIN kids |-> NodeVal(D, docs, d, kids[i])]
         IN Combine(SelectSeq(vals, LAMBDA v : v # EMPTY), "sum", 0)
    [] q.k = "dismax" ->
         LET vals == [i \in DOMAIN q.qs |-> NodeVal(D, docs, d, q.qs[i])]
         IN Combine(SelectSeq(vals, LAMBDA v : v # EMPTY), "dismax", q.tie)
    [] q.k = "const" -> IF Passes(D, d, q.g) THEN q.score ELSE 0
    [] OTHER -> EMPTY

ScoreS(D, docs, d, q) == LET v == NodeVal(D, docs, d, q) IN IF v = EMPTY THEN S ELSE v

(* is the absolute score oracle applicable to this query *)
RECURSIVE PlainScoring(_)
PlainScoring(q) ==
  CASE q.k \in {"fscore", "fvf"} -> FALSE
    [] q.k = "bool" -> /\ \A i \in DOMAIN q.must : PlainScoring(q.must[i])
                       /\ \A i \in DOMAIN q.should : PlainScoring(q.should[i])
                       /\ \A i \in DOMAIN q.mustnot : PlainScoring(q.mustnot[i])
    [] q.k = "dismax" -> \A i \in DOMAIN q.qs : PlainScoring(q.qs[i])
    [] OTHER -> TRUE

Close(a, b) == LET diff == IF a >= b THEN a - b ELSE b - a IN
               diff <= 20 + (MaxI(a, b) \div 100)          \* 0.002 absolute + 1 % relative

-----------------------------------------------------------------------------
(* Sort keys.  A sort spec is [kind: "score"|"kw"|"i64"|"f64", f, desc].   *)
(* Field values: minimum for ascending, maximum for descending; documents  *)
(* without a value come last in both directions; ties by (segment, ord).   *)

NumKeyVal(vals, desc) ==
  IF vals = <<>> THEN [miss |-> TRUE, v |-> 0]
  ELSE [miss |-> FALSE, v |-> IF desc THEN SetMax(SeqToSet(vals)) ELSE SetMin(SeqToSet(vals))]

StrPick(D, vals, desc) ==
  CHOOSE x \in SeqToSet(vals) : \A y \in SeqToSet(vals) :
     x = y \/ (IF desc THEN StrLess(D, y, x) ELSE StrLess(D, x, y))

(* -1 / 0 / 1 : does hit a come before b under one sort spec *)
CmpPart(D, spec, da, sa, db, sb) ==
  IF spec.kind = "score" THEN
       IF sa = sb THEN 0 ELSE IF (sa > sb) = spec.desc THEN 0 - 1 ELSE 1
  ELSE IF spec.kind = "kw" THEN
       LET va == Vals(da.kw, spec.f)  vb == Vals(db.kw, spec.f) IN
       IF va = <<>> /\ vb = <<>> THEN 0
       ELSE IF va = <<>> THEN 1 ELSE IF vb = <<>> THEN 0 - 1
       ELSE LET xa == StrPick(D, va, spec.desc)  xb == StrPick(D, vb, spec.desc) IN
            IF xa = xb THEN 0
            ELSE IF StrLess(D, xa, xb) = ~spec.desc THEN 0 - 1 ELSE 1
  ELSE LET la == IF spec.kind = "i64" THEN Vals(da.i64, spec.f) ELSE Vals(da.f64, spec.f)
           lb == IF spec.kind = "i64" THEN Vals(db.i64, spec.f) ELSE Vals(db.f64, spec.f)
           ka == NumKeyVal(la, spec.desc)  kb == NumKeyVal(lb, spec.desc)
       IN IF ka.miss /\ kb.miss THEN 0
          ELSE IF ka.miss THEN 1 ELSE IF kb.miss THEN 0 - 1
          ELSE IF ka.v = kb.v THEN 0
          ELSE IF (ka.v < kb.v) = ~spec.desc THEN 0 - 1 ELSE 1

RECURSIVE CmpKeys(_, _, _, _, _, _)
CmpKeys(D, sort, da, sa, db, sb) ==
  IF sort = <<>> THEN
       IF da.seg # db.seg THEN (IF da.seg < db.seg THEN 0 - 1 ELSE 1)
       ELSE IF da.ord = db.ord THEN 0 ELSE IF da.ord < db.ord THEN 0 - 1 ELSE 1
  ELSE LET c == CmpPart(D, Head(sort), da, sa, db, sb) IN
       IF c # 0 THEN c ELSE CmpKeys(D, Tail(sort), da, sa, db, sb)

LiveDoc(docs, id) == CHOOSE d \in docs : d.id = id /\ d.live

(* the returned sequence is strictly increasing under the sort plan, using *)
(* the observed scores for `_score` parts                                  *)
Ordered(D, docs, sort, ids, sbits) ==
  \A i \in 1..(Len(ids) - 1) :
     CmpKeys(D, sort, LiveDoc(docs, ids[i]), sbits[i], LiveDoc(docs, ids[i + 1]), sbits[i + 1]) < 0

UsesScore(sort) == \E i \in DOMAIN sort : sort[i].kind = "score"

-----------------------------------------------------------------------------
Tell(kind, prop, l, scn, e, why, dev) ==
  PrintT(ToJson([kind |-> kind, property |-> prop, line |-> l, scn |-> scn,
                 check |-> e.check, why |-> why, deviation |-> dev]))

(* C10: membership, order, scores and top-k completeness of one response.  *)
CheckRank(D, docs, e, l, scn) ==
  IF ~UnderCaps(D, docs, e.q) THEN TRUE
  ELSE
  LET ideal == Expected(D, docs, e.q, e.filters)
      built == ExpectedAsBuilt(D, docs, e.q, e.filters)
      ids == e.obs.ids
      got == SeqToSet(ids)
      n == Len(ids)
      scoreDesc == <<[kind |-> "score", f |-> "_score", desc |-> TRUE]>>
      absolute == e.absolute /\ PlainScoring(e.q) /\ UsesScore(e.sort)
      (* membership and top-k completeness relative to a candidate set `base` *)
      OkUnder(base) ==
        LET rest == {d \in base : d.id \notin got} IN
        /\ IF n < e.limit THEN got = {d.id : d \in base} ELSE got \subseteq {d.id : d \in base}
        /\ (n = e.limit /\ n > 0 /\ ~UsesScore(e.sort)) =>
              \A d \in rest : CmpKeys(D, e.sort, LiveDoc(docs, ids[n]), e.obs.sbits[n], d, 0) < 0
        /\ (n = e.limit /\ n > 0 /\ absolute /\ e.sort = scoreDesc) =>
              \A d \in rest : ScoreS(D, docs, d, e.q) <= e.obs.scores[n] + 20 + (e.obs.scores[n] \div 100)
      scoresOk ==
        absolute => \A i \in DOMAIN ids : Close(e.obs.scores[i], ScoreS(D, docs, LiveDoc(docs, ids[i]), e.q))
  IN IF ~e.obs.ok THEN Tell("FAIL", e.prop, l, scn, e, "search returned an error", "")
     ELSE IF ~(NoDupSeqR(ids) /\ n <= e.limit /\ got \subseteq {d.id : d \in ideal})
       THEN Tell("FAIL", e.prop, l, scn, e, "returned ids are not matching live documents", "")
     ELSE IF ~Ordered(D, docs, e.sort, ids, e.obs.sbits)
       THEN Tell("FAIL", e.prop, l, scn, e, "hits are not ordered by the sort plan with (segment, doc) tie-break", "")
     ELSE IF ~scoresOk
       THEN Tell("FAIL", e.prop, l, scn, e, "a score differs from BM25 combined through the query tree", "")
     ELSE IF OkUnder(ideal) THEN TRUE
     ELSE IF OkUnder(built)
       THEN Tell("DEV", e.prop, l, scn, e, "only documents containing a scored term are candidates", "S07a")
     ELSE Tell("FAIL", e.prop, l, scn, e, "a matching document that belongs in the result is missing", "")

-----------------------------------------------------------------------------
(* C11: a cursor walk.  pages = the responses obtained by following        *)
(* next_cursor from the first page; full = one request whose limit covers  *)
(* all matches.                                                            *)
RECURSIVE Concat(_, _)
Concat(pages, field) ==
  IF pages = <<>> THEN <<>> ELSE Head(pages)[field] \o Concat(Tail(pages), field)

CheckPaging(D, docs, e, l, scn) ==
  IF ~UnderCaps(D, docs, e.q) THEN TRUE
  ELSE
  LET ideal == Cardinality(Expected(D, docs, e.q, e.filters))
      built == Cardinality(ExpectedAsBuilt(D, docs, e.q, e.filters))
      n == Len(e.pages)
      allOk == e.full.ok /\ \A i \in 1..n : e.pages[i].ok
      cursorsOk == /\ \A i \in 1..(n - 1) : e.pages[i].hascursor
                   /\ ~e.pages[n].hascursor
      sizesOk == /\ \A i \in 1..(n - 1) : Len(e.pages[i].ids) = e.psize
                 /\ Len(e.pages[n].ids) <= e.psize
                 /\ (n > 1 => Len(e.pages[n].ids) > 0)
      totalsBound == \A i \in 1..n : e.pages[i].total <= ideal
      exhaustive == e.exec = "bm25" \/ ScoredTerms(D, docs, e.q) = {}
      totalsExact == exhaustive => \A i \in 1..n : e.pages[i].total \in {ideal, built}
  IN IF ~allOk THEN Tell("FAIL", e.prop, l, scn, e, "a page of the walk (or the covering request) returned an error", "")
     ELSE IF e.guard THEN Tell("FAIL", e.prop, l, scn, e, "the walk does not terminate", "")
     ELSE IF Concat(e.pages, "ids") # e.full.ids
       THEN Tell("FAIL", e.prop, l, scn, e, "pages concatenated differ from the single covering request (missing, duplicated or reordered hits)", "")
     ELSE IF Concat(e.pages, "sbits") # e.full.sbits
       THEN Tell("FAIL", e.prop, l, scn, e, "scores differ between the walk and the single request", "")
     ELSE IF ~(cursorsOk /\ sizesOk)
       THEN Tell("FAIL", e.prop, l, scn, e, "next_cursor is not absent exactly on the last page / short page inside the walk", "")
     ELSE IF ~totalsBound
       THEN Tell("FAIL", e.prop, l, scn, e, "total_hits_estimate exceeds the number of matching documents", "")
     ELSE IF ~totalsExact
       THEN Tell("FAIL", e.prop, l, scn, e, "total_hits_estimate is not exact under exhaustive execution", "")
     ELSE IF exhaustive /\ ideal # built /\ \E i \in 1..n : e.pages[i].total = built
       THEN Tell("DEV", e.prop, l, scn, e, "only documents containing a scored term are candidates", "S07a")
     ELSE TRUE

(* a cursor presented to another sort order or another index generation    *)
CheckStale(e, l, scn) ==
  IF e.ok THEN Tell("FAIL", e.prop, l, scn, e, "a stale cursor was accepted", "") ELSE TRUE

(* relational checks.  Scores of one document may differ in the last bits   *)
(* between strategies (f32 sums in another order), so rankings are compared *)
(* with a bit tolerance and a position may differ inside a run of near-ties.*)
AbsI(x) == IF x >= 0 THEN x ELSE 0 - x
CloseBits(a, b) == AbsI(a - b) <= 64

SameRanking(o1, o2) ==
  /\ o1.ok = o2.ok
  /\ Len(o1.ids) = Len(o2.ids)
  /\ \A i \in DOMAIN o1.ids :
        /\ CloseBits(o1.sbits[i], o2.sbits[i])
        /\ \/ o1.ids[i] = o2.ids[i]
           \/ \E j \in {i - 1, i + 1} \cap DOMAIN o1.ids : CloseBits(o1.sbits[i], o1.sbits[j])

(* C09: every execution strategy / block size returns the ranking of bm25  *)
CheckSame09(e, l, scn) ==
  LET first == e.variants[1].obs
      bad == {i \in DOMAIN e.variants : ~SameRanking(first, e.variants[i].obs)}
  IN IF bad # {}
       THEN Tell("FAIL", e.prop, l, scn, e, "pruned execution differs from exhaustive bm25", e.variants[CHOOSE i \in bad : TRUE].label)
     ELSE TRUE

(* C20: explain / profile change nothing.  Known finding S20a: with a sort  *)
(* plan without _score the engine skips scoring (hit scores 0) unless       *)
(* explain is on, so explain changes the reported scores.                   *)
CheckSame20(e, l, scn) ==
  LET first == e.variants[1].obs                       \* explain = false, profile = false
      P(o) == [f \in {"ok", "aggs"} |-> o[f]]
      Q(o) == [f \in {"ids", "cursor"} |-> o[f]]
      (* S20d (see below) also lets near-tied hits change places, and with them the cursor *)
      idsBad == {i \in DOMAIN e.variants : Q(e.variants[i].obs) # Q(first)}
      tiesOnly == /\ UsesScore(e.sort)
                  /\ \A i \in idsBad : e.variants[i].explain /\ SameRanking(first, e.variants[i].obs)
      otherBad == {i \in DOMAIN e.variants : P(e.variants[i].obs) # P(first)} \cup (IF tiesOnly THEN {} ELSE idsBad)
      totalBad == {i \in DOMAIN e.variants : e.variants[i].obs.total # first.total}
      (* S20b: explain installs a score hook, which switches pruning off, so the    *)
      (* estimate of a pruned execution grows when explain is on                    *)
      s20b == /\ e.exec # "bm25"
              /\ \A i \in totalBad : e.variants[i].explain /\ e.variants[i].obs.total > first.total
      scoreBad == {i \in DOMAIN e.variants : e.variants[i].obs.sbits # first.sbits}
      finalsBad == {i \in DOMAIN e.variants :
                      e.variants[i].obs.ok /\ e.variants[i].explain /\ e.variants[i].obs.finals # e.variants[i].obs.sbits}
      s20a == /\ ~UsesScore(e.sort)
              /\ \A i \in DOMAIN first.sbits : first.sbits[i] = 0
              /\ \A i \in scoreBad : e.variants[i].explain
              /\ \A i \in DOMAIN e.variants : ~e.variants[i].explain => i \notin scoreBad
      (* S20d: with explain the score is recomputed through the score tree, which sums the    *)
      (* term contributions in another order than the top-k loop: scores differ by a few ULP  *)
      s20d == /\ \A i \in scoreBad : /\ e.variants[i].explain
                                     /\ Len(e.variants[i].obs.sbits) = Len(first.sbits)
                                     /\ \A k \in DOMAIN first.sbits : AbsI(first.sbits[k] - e.variants[i].obs.sbits[k]) <= 4
              /\ \A i \in DOMAIN e.variants : ~e.variants[i].explain => i \notin scoreBad
  IN IF otherBad # {}
       THEN Tell("FAIL", e.prop, l, scn, e, "explain/profile changed hits, totals, cursor or aggregations", e.variants[CHOOSE i \in otherBad : TRUE].label)
     ELSE IF finalsBad # {}
       THEN Tell("FAIL", e.prop, l, scn, e, "an explanation's final score differs from its hit's score", "")
     ELSE IF scoreBad # {} /\ ~s20a /\ ~s20d
       THEN Tell("FAIL", e.prop, l, scn, e, "explain/profile changed scores", e.variants[CHOOSE i \in scoreBad : TRUE].label)
     ELSE IF totalBad # {} /\ ~s20b
       THEN Tell("FAIL", e.prop, l, scn, e, "explain/profile changed total_hits_estimate", e.variants[CHOOSE i \in totalBad : TRUE].label)
     ELSE /\ (scoreBad # {} /\ s20a) => Tell("DEV", e.prop, l, scn, e, "explain turns scoring on for a sort plan without _score", "S20a")
          /\ ((scoreBad # {} /\ ~s20a) \/ idsBad # {}) => Tell("DEV", e.prop, l, scn, e, "explain changes scores by a few ULP (summation order); near-tied hits may change places", "S20d")
          /\ (totalBad # {}) => Tell("DEV", e.prop, l, scn, e, "explain switches pruning off, so the total of a pruned execution grows", "S20b")

CheckSame(e, l, scn) == IF e.prop = "C09" THEN CheckSame09(e, l, scn) ELSE CheckSame20(e, l, scn)

=============================================================================
