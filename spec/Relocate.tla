------------------------------ MODULE Relocate ------------------------------
(***************************************************************************)
(* C28 - a copied (or moved) index directory is self-contained.           *)
(*                                                                         *)
(* Two directory roots, "A" (the original) and "B" (the copy).  A path is *)
(* a value <<root, name>>.  The manifest of an index lists its segments,  *)
(* each with the *path value* of its file - exactly what MANIFEST.json    *)
(* stores (directory::segment_paths joins the index root at write time).  *)
(* CopyDir / MoveDir transfer file names and contents verbatim, so the    *)
(* copy's manifest still holds <<"A", name>> values.                      *)
(*                                                                         *)
(* Every storage operation issued through an index handle names a path;   *)
(* `Resolve(root, p)` is the path the handle opened at `root` uses for    *)
(* the stored value p:                                                     *)
(*   Mode = "rebase"    <<root, p[2]>> - stored paths are re-anchored at  *)
(*                      the directory the manifest was loaded from (ideal)*)
(*   Mode = "absolute"  p itself - what the code does today (S28a)        *)
(* New files (segments, MANIFEST, MANIFEST.tmp, wal) are always created   *)
(* under the handle's own root (SegmentWriter uses inner.path).           *)
(*                                                                         *)
(* Properties of every operation made through the handle opened at B:     *)
(*   Confined           it names only paths under B                       *)
(*   SameResults        searches succeed and return the contents the      *)
(*                      original had when copied, updated by B's commits  *)
(*   OriginalUntouched  A's files and contents are what A's owner left    *)
(*                      (A may be modified by its owner, or removed)      *)
(***************************************************************************)
EXTENDS Naturals, Sequences, FiniteSets

CONSTANTS Mode, Docs, MaxOps

Roots == {"A", "B"}
MANIFEST == <<"MANIFEST", 0>>      \* names are uniformly tuples (TLC cannot compare a string with a tuple)
WALNAME == <<"wal", 0>>

(* a directory: name -> content.  Content of a segment file: the set of    *)
(* documents it holds; content of the manifest: Seq of                     *)
(* [path |-> <<root, name>>, docs |-> SUBSET Docs, dead |-> SUBSET Docs]   *)
EmptyDir == [x \in {} |-> <<>>]

Ext(f, k, v) == [x \in (DOMAIN f) \cup {k} |-> IF x = k THEN v ELSE f[x]]
Del(f, k) == [x \in (DOMAIN f) \ {k} |-> f[x]]

SegFile(docs) == [kind |-> "seg", docs |-> docs, segs |-> <<>>]
ManFile(segs) == [kind |-> "man", docs |-> {}, segs |-> segs]

(* Two further modes model the seeded change "skip the rebase when the stored path already     *)
(* starts with the root" implemented as a *textual* prefix test: invisible while the two         *)
(* directory names are unrelated, equal to "absolute" for the copy when the copy's name is a     *)
(* textual prefix of the original's (idx.bak restored to idx).                                   *)
Resolve(root, p) ==
  CASE Mode = "rebase" -> <<root, p[2]>>
    [] Mode = "fastpath_unrelated_names" -> <<root, p[2]>>
    [] Mode = "fastpath_copy_name_prefixes_original" -> IF root = "B" /\ p[1] = "A" THEN p ELSE <<root, p[2]>>
    [] OTHER -> p

SeqToSet(s) == {s[i] : i \in DOMAIN s}

Live(segs) == UNION {s.docs \ s.dead : s \in SeqToSet(segs)}

(* does the file a path value names exist?                                 *)
Exists(fs, dirs, p) == p[1] \in dirs /\ p[2] \in DOMAIN fs[p[1]]

SegName(n) == <<"seg", n>>

(* --- what a handle opened at `root` does, as (new fs, paths named) ---- *)

(* paths a reader names: the manifest, then every segment file            *)
ReadSet(root, segs) == {Resolve(root, s.path) : s \in SeqToSet(segs)}

Readable(fs, dirs, root, segs) == \A p \in ReadSet(root, segs) : Exists(fs, dirs, p)

(* tombstone the live copies of d, then add a new segment holding d        *)
WithAdd(segs, root, n, d) ==
  [i \in DOMAIN segs |-> [segs[i] EXCEPT !.dead = IF d \in @ \cup segs[i].docs THEN @ \cup {d} ELSE @]]
  \o <<[path |-> <<root, SegName(n)>>, docs |-> {d}, dead |-> {}]>>

WithDel(segs, d) ==
  [i \in DOMAIN segs |-> [segs[i] EXCEPT !.dead = IF d \in segs[i].docs THEN @ \cup {d} ELSE @]]

Compacted(segs, root, n) == <<[path |-> <<root, SegName(n)>>, docs |-> Live(segs), dead |-> {}]>>

-----------------------------------------------------------------------------
(* Judging recorded storage events (Trace_Relocate.tla).                   *)
(* A recorded operation issued through the handle opened at B is confined  *)
(* when every path it names is under B.  The as-built behaviour (S28a)     *)
(* predicts exactly these unconfined operations: the handle resolves the   *)
(* path values copied from A's manifest to A itself, so it                 *)
(*   reads / opens for reading the segment files listed in the copied      *)
(*   manifest under A (reader, writer start-up, compaction), and           *)
(*   unlinks them (and their vector directory) during compaction cleanup.  *)
(* It never creates, writes, renames, truncates or syncs anything under A, *)
(* and never touches A's MANIFEST or log.                                  *)
ReadOps == {"read", "open_read"}
RemoveOps == {"unlink", "rmdir_all"}

AsBuiltExplains(op, name, listed, call) ==
  \/ op \in ReadOps /\ name \in listed
  \/ op \in RemoveOps /\ name \in listed /\ call = "compact"

=============================================================================
