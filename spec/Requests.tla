------------------------------ MODULE Requests ------------------------------
(***************************************************************************)
(* C16 - search never panics on any request that deserialises.              *)
(*                                                                         *)
(* A request is described by one *class* per dimension of SearchRequest.    *)
(* Every class carries a tag saying what the documentation pins down:       *)
(*   "ok"   documented, well-formed use (README example or reference text); *)
(*          pins Ok when it is the only non-default feature of the request  *)
(*   "err"  the documentation says the request is refused:                  *)
(*          README "Sort targets must be fast keyword or numeric fields",   *)
(*          "Aggregations ... require fast fields", "collapse ... by a fast *)
(*          keyword field", "very deep pagination returns an error",        *)
(*          "cursors are not supported" without hits, property C11 "a       *)
(*          cursor presented to a different index generation or sort order  *)
(*          is rejected with an error"                                      *)
(*   "any"  the documentation is silent: Ok and Err are both fine           *)
(*   "wild" takes a path on which even the "err" classes of other           *)
(*          dimensions are not documented to be looked at (vector-only)     *)
(*                                                                         *)
(*   Outcome(vec) \subseteq {"Ok", "Err"}: "Panic", "Abort" and "Hang" are  *)
(*   in no class's allowed set.  The set is a singleton where the           *)
(*   documentation pins the outcome.                                        *)
(*                                                                         *)
(* Requests that were not built from classes (structure-aware random        *)
(* requests, byte/char-level mutants) have class "free" in every            *)
(* dimension: for them the only content is "never Panic/Abort/Hang".        *)
(***************************************************************************)
EXTENDS Naturals, Sequences, FiniteSets

C(c, tag) == [c |-> c, tag |-> tag]

Dims == << "cursor", "query", "boost", "fuzzy", "sort", "highlight", "aggs", "limit",
           "candidate", "collapse", "rescore", "flags", "suggest", "execution" >>

(* The first class of every dimension is its default (a plain request).     *)
Classes ==
  [ cursor |-> <<
      C("none", "ok"),
      C("valid", "ok"),              \* next_cursor of page 1 of the same request on this index
      C("stale_generation", "err"),  \* next_cursor obtained before the last commit
      C("other_sort", "err"),        \* next_cursor of the same query under another sort order
      C("deep", "err"),              \* well-formed, `returned` beyond the 50k bound
      C("valid_tampered", "any"),    \* a genuine next_cursor with one field changed (type tag of a sort value,
                                     \* value type, number of values, positions); version, generation, plan hash valid
      C("wrong_length", "any"),      \* hex, but 40 characters
      C("nonhex_ascii", "any"),      \* 42 ASCII characters that are not hex digits
      C("hex_random", "any"),        \* 42 random hex digits
      C("utf8_even", "any"),         \* 42 bytes, multi-byte characters straddling the 2-byte chunks
      C("utf8_short_even", "any"),   \* "a", one 2-byte character, "a": 4 bytes (sort cursors have no fixed length)
      C("utf8_odd", "any"),          \* odd number of bytes with multi-byte characters
      C("utf8_aligned", "any"),      \* 42 bytes of 2-byte characters, aligned with the chunks
      C("json_garbage", "any"),      \* hex of bytes that are not the cursor JSON
      C("json_wrong_types", "any"),  \* hex of JSON with the cursor's keys and wrong value types
      C("empty", "any") >>,
    query |-> <<
      C("query_string", "ok"), C("match_all", "ok"), C("term", "ok"), C("prefix", "ok"),
      C("wildcard", "ok"), C("regex", "ok"), C("phrase", "ok"), C("multi_match", "ok"),
      C("dis_max", "ok"), C("bool", "ok"), C("function_score", "ok"), C("script_score", "ok"),
      C("constant_score", "ok"), C("rank_feature", "ok"), C("legacy_string", "ok"),
      C("dup_term", "any"),          \* the same term scored under two clauses
      C("dup_term_dis_max", "any"),
      C("wildcard_dense", "any"),    \* "*a*b*?*c*" and friends
      C("wildcard_only_star", "any"),
      C("regex_invalid", "any"),     \* unbalanced parenthesis
      C("regex_nested_quantifiers", "any"),
      C("regex_huge_repeat", "any"), \* a{1000}{1000}
      C("regex_empty", "any"),
      C("regex_multibyte", "any"),
      C("phrase_no_terms", "any"), C("phrase_huge_slop", "any"),
      C("multi_match_no_fields", "any"), C("multi_match_bad_msm", "any"),
      C("dis_max_empty", "any"), C("bool_empty", "any"), C("bool_only_must_not", "any"),
      C("bool_deep", "any"),         \* 40 levels of nesting
      C("function_score_extreme", "any"),   \* zero scale, huge factors, log of negatives
      C("function_score_no_functions", "any"),
      C("script_syntax_error", "any"), C("script_div_zero", "any"), C("script_unknown_field", "any"),
      C("script_too_long", "any"), C("script_deep_parens", "any"), C("script_multibyte", "any"),
      C("rank_feature_text_field", "any"),
      C("term_unknown_field", "any"), C("term_multibyte", "any"), C("term_empty", "any"),
      C("query_string_operators", "any"),   \* unbalanced quotes, dangling field:, lone minus
      C("prefix_zero_expansions", "any"), C("prefix_huge_expansions", "any"),
      C("vector", "wild"), C("vector_wrong_dim", "wild"), C("vector_unknown_field", "wild") >>,
    boost |-> <<
      C("none", "ok"), C("positive", "ok"), C("zero", "any"), C("negative", "any"),
      C("huge", "any"), C("tiny", "any"), C("negative_zero", "any") >>,
    fuzzy |-> <<
      C("none", "ok"), C("readme", "ok"), C("edits_0", "any"), C("edits_255", "any"),
      C("prefix_huge", "any"), C("expansions_0", "any"), C("min_length_0", "any") >>,
    sort |-> <<
      C("none", "ok"), C("score_desc", "ok"), C("numeric_fast", "ok"), C("keyword_fast", "ok"),
      C("multi", "ok"), C("score_asc", "any"), C("nested_fast", "any"), C("duplicate", "any"),
      C("unknown_field", "err"), C("non_fast_field", "err"), C("text_field", "err") >>,
    highlight |-> <<
      C("none", "ok"), C("legacy_field", "ok"), C("config", "ok"),
      C("legacy_unknown_field", "any"), C("config_unknown_field", "any"),
      C("fragment_0", "any"), C("fragment_huge", "any"), C("fragments_0", "any"),
      C("fragments_huge", "any"), C("tags_regex_chars", "any"), C("tags_multibyte", "any"),
      C("fragment_odd_multibyte", "any") >>,
    aggs |-> <<
      C("none", "ok"), C("terms", "ok"), C("stats", "ok"), C("histogram", "ok"), C("range", "ok"),
      C("terms_unknown_field", "err"), C("terms_non_fast", "err"), C("stats_keyword_field", "err"),
      C("terms_size_0", "any"), C("terms_sub_aggs", "any"),
      C("histogram_interval_0", "any"), C("histogram_interval_negative", "any"),
      C("histogram_interval_tiny", "any"), C("histogram_bounds_inverted", "any"),
      C("histogram_bounds_saturated", "any"),       \* bounds beyond i64 after division by the interval (same bucket)
      C("histogram_hard_bounds_saturated", "any"),
      C("histogram_bounds_wide", "any"),
      C("range_inverted", "any"), C("range_empty", "any"),
      C("date_histogram", "any"), C("date_histogram_bad_interval", "any"),
      C("date_histogram_zero_interval", "any"),
      C("date_range_bad_date", "any"),
      C("percentiles_out_of_range", "any"), C("percentile_ranks", "any"),
      C("cardinality_precision_0", "any"), C("extended_stats_missing_string", "any"),
      C("composite", "any"), C("composite_bad_after", "any"), C("composite_size_0", "any"),
      C("composite_interval_0", "any"),
      C("top_hits_huge", "any"), C("filter_agg", "any"), C("significant_terms", "any"),
      C("rare_terms", "any"), C("sampling_probability_2", "any"), C("sampling_negative", "any"),
      C("pipeline_no_parent", "any"), C("pipeline_bad_path", "any"),
      C("bucket_script_bad", "any"), C("moving_avg_window_0", "any"),
      C("moving_avg_predict_huge", "any"),
      C("bucket_sort_unknown", "any"), C("deep_sub_aggs", "any") >>,
    limit |-> << C("normal", "ok"), C("one", "ok"), C("zero", "any"), C("huge", "any") >>,
    candidate |-> << C("none", "ok"), C("zero", "any"), C("huge", "any"), C("small", "any") >>,
    collapse |-> <<
      C("none", "ok"), C("keyword_fast", "ok"), C("inner_hits", "ok"),
      C("unknown_field", "err"), C("numeric_field", "err"), C("multi_valued", "any"),
      C("inner_hits_huge", "any"), C("inner_hits_bad_sort", "any") >>,
    rescore |-> <<
      C("none", "ok"), C("phrase", "ok"), C("window_0", "any"), C("window_huge", "any"),
      C("bad_query", "any") >>,
    flags |-> <<
      C("none", "ok"), C("explain", "ok"), C("profile", "ok"), C("explain_profile", "ok"),
      C("no_hits", "any"), C("no_stored", "ok") >>,
    suggest |-> <<
      C("none", "ok"), C("completion", "ok"), C("fuzzy", "any"), C("unknown_field", "any"),
      C("size_0", "any"), C("prefix_multibyte", "any"), C("prefix_empty", "any") >>,
    execution |-> <<
      C("default", "ok"), C("bm25", "ok"), C("bmw", "ok"), C("bmw_block_0", "any"),
      C("bmw_block_1", "any"), C("bmw_block_huge", "any") >> ]

DimSet == {Dims[i] : i \in DOMAIN Dims}
Names(d) == {Classes[d][i].c : i \in DOMAIN Classes[d]}
TagOf(d, c) ==
  IF c = "free" THEN "any"
  ELSE Classes[d][CHOOSE i \in DOMAIN Classes[d] : Classes[d][i].c = c].tag
DefaultOf(d) == Classes[d][1].c

(* vec: [dimension -> class name or "free"]                                 *)
WellFormed(vec) == DOMAIN vec = DimSet /\ \A d \in DimSet : vec[d] \in Names(d) \cup {"free"}
Tags(vec) == {TagOf(d, vec[d]) : d \in DimSet}

(* Cursors are refused when no hits are returned (README); a cursor class    *)
(* other than "none" together with flags = no_hits pins an error.            *)
CursorWithoutHits(vec) == vec.flags = "no_hits" /\ vec.cursor \notin {"none", "free"}

(* A documented feature used on its own on a plain request must work; the   *)
(* documentation says nothing about combinations of features (for instance  *)
(* a cursor together with rescoring), so those are not pinned to Ok.        *)
NonDefault(vec) == {d \in DimSet : vec[d] # DefaultOf(d)}

Outcome(vec) ==
  IF "wild" \in Tags(vec) THEN {"Ok", "Err"}
  ELSE IF "err" \in Tags(vec) \/ CursorWithoutHits(vec) THEN {"Err"}
  ELSE IF Tags(vec) = {"ok"} /\ Cardinality(NonDefault(vec)) <= 1 THEN {"Ok"}
  ELSE {"Ok", "Err"}

AllOutcomes == {"Ok", "Err", "Panic", "Abort", "Hang"}

(* The property at specification level: no class vector allows a crash.      *)
THEOREM NeverCrashAllowed == \A vec \in [DimSet -> STRING] : Outcome(vec) \subseteq {"Ok", "Err"}
=============================================================================
