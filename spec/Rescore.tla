------------------------------- MODULE Rescore -------------------------------
(***************************************************************************)
(* C19: rescoring (README "Custom scoring and reranking": "Rescore the top *)
(* window after the initial rank (ordering outside the window is           *)
(* unchanged)").                                                           *)
(*                                                                         *)
(* Input: the ranked list L of the request without `rescore` (hits         *)
(* [id, sb]), window_size, and for every hit of the window the outcome of  *)
(* the rescore query: Drop(h) (its score tree yields no score: min_score)  *)
(* or a new score NewSb(h) (= the old one when the query does not match).  *)
(*   w = min(window_size, |L|)                                             *)
(*   the first w ORIGINAL positions, minus the dropped hits, are sorted    *)
(*   among themselves by the request's sort plan with the new scores;      *)
(*   L[w+1..] follows unchanged (scores, relative order) and no hit of it  *)
(*   ever precedes a hit of the window.                                    *)
(***************************************************************************)
EXTENDS ListOps

WindowLen(L, window) == MinI(window, Len(L))

Survivors(L, w, Drop(_), NewSb(_)) ==
  LET surv == SelectSeq(SubSeq(L, 1, w), LAMBDA h : ~Drop(h)) IN
  [i \in DOMAIN surv |-> [id |-> surv[i].id, sb |-> NewSb(surv[i])]]

Rescored(L, window, Drop(_), NewSb(_), Before(_, _)) ==
  LET w == WindowLen(L, window) IN
  SortSeqBy(Survivors(L, w, Drop, NewSb), Before) \o SubSeq(L, w + 1, Len(L))

(* Deviation S19a (known finding): the engine removes the dropped hits     *)
(* first and then sorts the first min(window_size, remaining) hits, so     *)
(* after k removals the k hits that followed the window take part in the   *)
(* sort and can move ahead of hits of the window.                          *)
RescoredAsBuilt(L, window, Drop(_), NewSb(_), Before(_, _)) ==
  LET w == WindowLen(L, window)
      rest == Survivors(L, w, Drop, NewSb) \o SubSeq(L, w + 1, Len(L))
      sw == MinI(window, Len(rest))
  IN SortSeqBy(SubSeq(rest, 1, sw), Before) \o SubSeq(rest, sw + 1, Len(rest))

(* what the property demands of any result R for L *)
TailUntouched(L, window, R) ==
  LET w == WindowLen(L, window)
      t == Len(L) - w
  IN /\ Len(R) >= t
     /\ SubSeq(R, Len(R) - t + 1, Len(R)) = SubSeq(L, w + 1, Len(L))

WindowMembers(L, window, R) ==
  LET w == WindowLen(L, window)
      t == Len(L) - w
      head == SubSeq(R, 1, Len(R) - t)
  IN /\ Cardinality({head[i].id : i \in DOMAIN head}) = Len(head)
     /\ {head[i].id : i \in DOMAIN head} \subseteq {L[i].id : i \in 1..w}

WindowOrdered(L, window, R, Before(_, _)) ==
  LET t == Len(L) - WindowLen(L, window) IN
  \A i \in 1..(Len(R) - t - 1) : Before(R[i], R[i + 1])

-----------------------------------------------------------------------------
(* score combination (fixed point, scale S)                                *)
CombineR(mode, orig, rs) ==
  CASE mode \in {"total", "sum"} -> orig + rs
    [] mode = "multiply" -> MulDiv(orig, rs, S)
    [] mode = "max" -> MaxI(orig, rs)
    [] mode = "min" -> MinI(orig, rs)

(* the rescore query: an abstract query node, or                            *)
(* [k |-> "fsmin", q, min]: function_score without functions and with      *)
(* min_score - scores like q and yields no score below min                 *)
RqInner(rq) == IF rq.k = "fsmin" THEN rq.q ELSE rq
RqHasMin(rq) == rq.k = "fsmin"

-----------------------------------------------------------------------------
(* Trace check.  e.base = observed response without `rescore`, e.obs =     *)
(* with `rescore`, both under a limit that covers every match.  The new    *)
(* scores are taken from e.obs; where the absolute oracle applies          *)
(* (e.absolute: corpus without deletions; PlainScoring) they must be the   *)
(* documented combination of the old score and ScoreS of the rescore query *)
(* and the dropped hits must be exactly those below min_score.             *)
(* e.small: the same rescored request under a small limit; when the window *)
(* lies within its candidate list and nothing was dropped it must return   *)
(* the first hits of e.obs.                                                *)

CheckRescore(D, docs, e, l, scn) ==
  LET rq == RqInner(e.rq)
      L == HitSeq(e.base)
      R == HitSeq(e.obs)
      w == WindowLen(L, e.window)
      idsL == SeqToSet(e.base.ids)
      idsR == SeqToSet(e.obs.ids)
      dropped == idsL \ idsR
      winIds == {L[i].id : i \in 1..w}
      Doc(id) == LiveDoc(docs, id)
      caps == UnderCaps(D, docs, rq)
      RqMatches(id) == Matches(D, docs, Doc(id), rq)
      sbIn(o, id) == o.sbits[CHOOSE i \in DOMAIN o.ids : o.ids[i] = id]
      scIn(o, id) == o.scores[CHOOSE i \in DOMAIN o.ids : o.ids[i] = id]
      Drop(h) == h.id \in dropped
      NewSb(h) == sbIn(e.obs, h.id)
      Before(a, b) == CmpKeys(D, e.sort, Doc(a.id), a.sb, Doc(b.id), b.sb) < 0
      ideal == Rescored(L, e.window, Drop, NewSb, Before)
      built == RescoredAsBuilt(L, e.window, Drop, NewSb, Before)
      tailSame == \A i \in (w + 1)..Len(L) : L[i].id \in idsR => sbIn(e.obs, L[i].id) = L[i].sb
      keepSame == caps => \A id \in winIds \ dropped : ~RqMatches(id) => sbIn(e.obs, id) = sbIn(e.base, id)
      dropsOk == \A id \in dropped : RqHasMin(e.rq) /\ (caps => RqMatches(id))
      absolute == e.absolute /\ caps /\ PlainScoring(rq)
      rs(id) == ScoreS(D, docs, Doc(id), rq)
      \* a rescore query without any scorer for the hit (only must_not / filter / phrase clauses):
      \* the property does not say whether its "score" is the constant 1 of a main query or
      \* nothing at all (the code adds nothing), so such hits are not judged by the absolute oracle
      Scored(id) == NodeVal(D, docs, Doc(id), rq) # EMPTY
      scoresOk ==
        \A id \in winIds \ dropped :
           (RqMatches(id) /\ Scored(id)) => Close(scIn(e.obs, id), CombineR(e.mode, scIn(e.base, id), rs(id)))
      minOk ==
        RqHasMin(e.rq) =>
          \A id \in winIds :
             (RqMatches(id) /\ Scored(id) /\ ~Close(rs(id), e.rq.min)) => ((id \in dropped) <=> (rs(id) < e.rq.min))
      smallApplies == e.small.has /\ e.small.obs.ok /\ e.window <= e.small.limit + 1 /\ dropped = {}
      smallOk == HitSeq(e.small.obs) = SubSeq(R, 1, MinI(e.small.limit, Len(R)))
  IN IF ~e.base.ok \/ ~e.obs.ok \/ (e.small.has /\ ~e.small.obs.ok)
       THEN Tell("FAIL", e.prop, l, scn, e, "search returned an error", "")
     ELSE IF ~(NoDupSeqR(e.obs.ids) /\ idsR \subseteq idsL)
       THEN Tell("FAIL", e.prop, l, scn, e, "rescoring added or duplicated hits", "")
     ELSE IF ~(dropped \subseteq winIds)
       THEN Tell("FAIL", e.prop, l, scn, e, "a hit outside the rescore window disappeared", "")
     ELSE IF ~tailSame
       THEN Tell("FAIL", e.prop, l, scn, e, "the score of a hit outside the rescore window changed", "")
     ELSE IF ~dropsOk
       THEN Tell("FAIL", e.prop, l, scn, e, "a hit was dropped that the rescore query's min_score cannot reject", "")
     ELSE IF ~keepSame
       THEN Tell("FAIL", e.prop, l, scn, e, "the score of a window hit that the rescore query does not match changed", "")
     ELSE IF R # ideal /\ R # built
       THEN Tell("FAIL", e.prop, l, scn, e,
                 IF ~TailUntouched(L, e.window, R)
                   THEN "hits after the rescore window do not keep their order behind the window"
                   ELSE "the rescore window is not ordered by the new scores", "")
     ELSE IF absolute /\ ~scoresOk
       THEN Tell("FAIL", e.prop, l, scn, e, "a rescored hit's score is not the documented combination of the original and the rescore-query score", "")
     ELSE IF absolute /\ ~minOk
       THEN Tell("FAIL", e.prop, l, scn, e, "the dropped hits are not those the rescore query scores below min_score", "")
     ELSE IF smallApplies /\ ~smallOk
       THEN Tell("FAIL", e.prop, l, scn, e, "the same rescored request under a smaller limit does not return the first hits", "")
     ELSE IF R # ideal
       THEN Tell("DEV", e.prop, l, scn, e, "after min_score removals the sort covers window_size remaining hits: hits behind the window were re-sorted into it", "S19a")
     ELSE TRUE

=============================================================================
