------------------------------- MODULE Search -------------------------------
(***************************************************************************)
(* Declarative reference semantics of searchlite's query and filter       *)
(* languages over an abstract corpus (C07, C08; the base of C09-C14,      *)
(* C18-C22).                                                               *)
(*                                                                         *)
(* A document is a record                                                  *)
(*   id, ver, seg, ord, live                                               *)
(*   text : << [f, vals : << << <<tok, pos>> ... >> per value >>] >>       *)
(*          tokens as produced by the field's *index* analyzer             *)
(*   kw   : << [f, vals : << string >>] >>                                 *)
(*   i64  : << [f, vals : << int >>] >>                                    *)
(*   f64  : << [f, vals : << int >>] >>     values in quarters (x4)        *)
(*   nested : << [path, objs : << object >>] >>   objects have kw/i64/f64/ *)
(*          nested of the same shape (the document as written, a tree)    *)
(*                                                                         *)
(* D is the string dictionary: D[s] = [cp : code points, lc : Unicode     *)
(* lower-case, alc : ASCII lower-case].  Strings are atomic in TLC, so     *)
(* everything that looks inside a string goes through D.                   *)
(***************************************************************************)
EXTENDS Integers, Sequences, FiniteSets, TLC

SeqToSet(s) == {s[i] : i \in DOMAIN s}
MinI(a, b) == IF a <= b THEN a ELSE b
MaxI(a, b) == IF a >= b THEN a ELSE b
SetMax(S) == CHOOSE x \in S : \A y \in S : y <= x
SetMin(S) == CHOOSE x \in S : \A y \in S : x <= y

(* the entry of a [f, vals] list for field f, or the empty value list *)
Vals(list, f) ==
  LET hit == {i \in DOMAIN list : list[i].f = f} IN
  IF hit = {} THEN <<>> ELSE list[CHOOSE i \in hit : TRUE].vals

Objs(list, path) ==
  LET hit == {i \in DOMAIN list : list[i].path = path} IN
  IF hit = {} THEN <<>> ELSE list[CHOOSE i \in hit : TRUE].objs

-----------------------------------------------------------------------------
(* Text: global token positions.  Values of a multi-valued text field are  *)
(* indexed one after the other: the next value starts at the previous      *)
(* value's highest position + 1 (+1 when a value produced no token).       *)

RECURSIVE GlobalToks(_, _)
GlobalToks(vals, off) ==
  IF vals = <<>> THEN {}
  ELSE LET v == Head(vals)
           next == IF v = <<>> THEN off + 1
                   ELSE off + SetMax({v[i][2] : i \in DOMAIN v}) + 1
       IN {<<v[i][1], off + v[i][2]>> : i \in DOMAIN v} \cup GlobalToks(Tail(vals), next)

Toks(d, f) == GlobalToks(Vals(d.text, f), 0)          \* set of <<token, position>>
TokSet(d, f) == {p[1] : p \in Toks(d, f)}

RECURSIVE CountToks(_)
CountToks(vals) == IF vals = <<>> THEN 0 ELSE Len(Head(vals)) + CountToks(Tail(vals))
FieldLen(d, f) == CountToks(Vals(d.text, f))           \* document length used by BM25

(* index terms of a keyword field: ASCII-lower-cased whole values *)
KwTerms(D, d, f) == {D[v].alc : v \in SeqToSet(Vals(d.kw, f))}

(* does the document contain index term t in field f of the given kind *)
DocHas(D, d, f, kind, t) ==
  IF kind = "text" THEN t \in TokSet(d, f) ELSE t \in KwTerms(D, d, f)

TermFreq(D, d, f, kind, t) ==
  IF kind = "text" THEN Cardinality({p \in Toks(d, f) : p[1] = t})
  ELSE IF t \in KwTerms(D, d, f) THEN 1 ELSE 0

(* the term dictionary of a field over a set of documents *)
FieldTerms(D, docs, f, kind) ==
  UNION {IF kind = "text" THEN TokSet(d, f) ELSE KwTerms(D, d, f) : d \in docs}

-----------------------------------------------------------------------------
(* Strings through the dictionary                                          *)

IsPrefixCp(p, s) == Len(p) <= Len(s) /\ \A i \in 1..Len(p) : p[i] = s[i]

STAR == 42   \* '*'
QM == 63     \* '?'

RECURSIVE WildMatch(_, _)
WildMatch(p, s) ==
  IF p = <<>> THEN s = <<>>
  ELSE IF Head(p) = STAR
         THEN WildMatch(Tail(p), s) \/ (s # <<>> /\ WildMatch(p, Tail(s)))
  ELSE s # <<>> /\ (Head(p) = QM \/ Head(p) = Head(s)) /\ WildMatch(Tail(p), Tail(s))

(* code-point lexicographic order (Rust's String order) *)
RECURSIVE CpLess(_, _)
CpLess(a, b) ==
  IF b = <<>> THEN FALSE
  ELSE IF a = <<>> THEN TRUE
  ELSE IF Head(a) # Head(b) THEN Head(a) < Head(b)
  ELSE CpLess(Tail(a), Tail(b))

StrLess(D, a, b) == CpLess(D[a].cp, D[b].cp)

-----------------------------------------------------------------------------
(* Filters (README "Filters"): evaluated against a context object - the    *)
(* document root or a nested object.                                       *)
(*   kweq   any value of the field equals any of vs, case-insensitively    *)
(*   i64r / f64r   inclusive range over the values of a field of that type *)
(*   nested(path, g)   some object of ctx.nested[path] passes g            *)
(*   and    all children pass, where sibling nested clauses with the same  *)
(*          path must be satisfied by ONE object                           *)
(* A dotted field name at the root ("comments.author") ranges over every   *)
(* object along the path.                                                   *)

RECURSIVE AllObjs(_, _)
AllObjs(ctx, path) ==      \* path: sequence of path components
  IF path = <<>> THEN {ctx}
  ELSE UNION {AllObjs(o, Tail(path)) : o \in SeqToSet(Objs(ctx.nested, Head(path)))}

KwMatch(D, ctx, f, vs) ==
  \E x \in SeqToSet(Vals(ctx.kw, f)) : \E v \in SeqToSet(vs) : D[x].lc = D[v].lc

(* Sibling grouping is a rewriting: And[Nested(p, a), Nested(p, b), x] means *)
(* And[Nested(p, And[a, b]), x]; it therefore applies again inside the     *)
(* bound object (two grouped clauses that are themselves nested on one     *)
(* path bind to one child object).                                          *)
RECURSIVE Passes(_, _, _)
SetToSeq(S) == CHOOSE f \in [1..Cardinality(S) -> S] : \A i, j \in 1..Cardinality(S) : i # j => f[i] # f[j]
NestedGroupPasses(D, ctx, path, gs) ==
  \E o \in SeqToSet(Objs(ctx.nested, path)) : Passes(D, o, [k |-> "and", gs |-> SetToSeq(gs)])

Passes(D, ctx, g) ==
  CASE g.k = "true" -> TRUE
    [] g.k = "kweq" -> KwMatch(D, ctx, g.f, g.vs)
    [] g.k = "i64r" -> \E x \in SeqToSet(Vals(ctx.i64, g.f)) : g.min <= x /\ x <= g.max
    [] g.k = "f64r" -> \E x \in SeqToSet(Vals(ctx.f64, g.f)) : g.min <= x /\ x <= g.max
    [] g.k = "nested" -> \E o \in SeqToSet(Objs(ctx.nested, g.path)) : Passes(D, o, g.g)
    [] g.k = "or" -> \E i \in DOMAIN g.gs : Passes(D, ctx, g.gs[i])
    [] g.k = "not" -> ~Passes(D, ctx, g.g)
    [] g.k = "and" ->
         LET kids == SeqToSet(g.gs)
             nest == {x \in kids : x.k = "nested"}
             paths == {x.path : x \in nest}
         IN /\ \A x \in kids \ nest : Passes(D, ctx, x)
            /\ \A p \in paths : NestedGroupPasses(D, ctx, p, {x.g : x \in {y \in nest : y.path = p}})

PassesAll(D, ctx, gs) == Passes(D, ctx, [k |-> "and", gs |-> gs])

-----------------------------------------------------------------------------
(* Queries.  Abstract nodes (see harness/src/qgen.rs abstract_query):      *)
(*  all | term(alts) | prefix | wild | phrase(alts, slop) |                *)
(*  qs(groups, nots, phrases, msm) | bool | dismax | const(filter) |       *)
(*  fscore(q, ..) | fvf(q, ..)                                             *)

(* Request-level fuzzy matching (README "typo-tolerant search"): a scored exact term also     *)
(* matches documents holding an index term of the same field within `edits` (at most 2)       *)
(* Levenshtein edits over code points that shares the first `plen` characters, provided the   *)
(* query term has at least `minlen` characters.  The harness writes n.fz = [has, edits, plen, *)
(* minlen] into the scored term nodes of a request with a fuzzy option; the expansion cap is  *)
(* kept above the dictionary size ("below their expansion caps").                             *)
RECURSIVE FzWithin(_, _, _)
FzWithin(a, b, k) ==
  IF k < 0 THEN FALSE
  ELSE IF a = <<>> THEN Len(b) <= k
  ELSE IF b = <<>> THEN Len(a) <= k
  ELSE IF Head(a) = Head(b) THEN FzWithin(Tail(a), Tail(b), k)
  ELSE \/ FzWithin(Tail(a), b, k - 1)
       \/ FzWithin(a, Tail(b), k - 1)
       \/ FzWithin(Tail(a), Tail(b), k - 1)

FzSharePrefix(a, b, n) ==
  LET m == MinI(n, Len(a)) IN Len(b) >= m /\ \A i \in 1..m : a[i] = b[i]

FuzzyHas(D, d, f, kind, t, fz) ==
  LET tc == D[t].cp
      own == IF kind = "text" THEN TokSet(d, f) ELSE KwTerms(D, d, f)
  IN /\ fz.edits > 0
     /\ Len(tc) >= fz.minlen
     /\ \E c \in own : FzSharePrefix(tc, D[c].cp, fz.plen) /\ FzWithin(tc, D[c].cp, MinI(fz.edits, 2))

(* the dictionary terms a fuzzy term stands for (they are scored like the term itself) *)
FuzzyExp(D, docs, f, kind, t, fz) ==
  LET tc == D[t].cp IN
  IF fz.edits > 0 /\ Len(tc) >= fz.minlen
    THEN {c \in FieldTerms(D, docs, f, kind) :
            FzSharePrefix(tc, D[c].cp, fz.plen) /\ FzWithin(tc, D[c].cp, MinI(fz.edits, 2))}
    ELSE {}

TermMatches(D, d, n) ==
  \E i \in DOMAIN n.alts : \E t \in SeqToSet(n.alts[i].toks) :
     \/ DocHas(D, d, n.alts[i].f, n.alts[i].kind, t)
     \/ ("fz" \in DOMAIN n /\ n.fz.has /\ FuzzyHas(D, d, n.alts[i].f, n.alts[i].kind, t, n.fz))

(* Regular expressions (anchored: the whole term must match).  Syntax trees arrive from the  *)
(* harness: lit(c) | any | cls(cs) | cat(xs) | alt(xs) | star(x) | plus(x) | opt(x) over code *)
(* points.  ReEnds(a, s, i) = the positions j such that a matches s[i .. j-1].               *)
RECURSIVE ReEnds(_, _, _), ReCat(_, _, _, _), ReClosure(_, _, _)
ReEnds(a, s, i) ==
  CASE a.k = "lit" -> IF i <= Len(s) /\ s[i] = a.c THEN {i + 1} ELSE {}
    [] a.k = "any" -> IF i <= Len(s) THEN {i + 1} ELSE {}
    [] a.k = "cls" -> IF i <= Len(s) /\ s[i] \in SeqToSet(a.cs) THEN {i + 1} ELSE {}
    [] a.k = "cat" -> ReCat(a.xs, 1, s, {i})
    [] a.k = "alt" -> UNION {ReEnds(a.xs[n], s, i) : n \in DOMAIN a.xs}
    [] a.k = "opt" -> {i} \cup ReEnds(a.x, s, i)
    [] a.k = "star" -> ReClosure(a.x, s, {i})
    [] a.k = "plus" -> ReClosure(a.x, s, ReEnds(a.x, s, i))
ReCat(xs, n, s, cur) ==
  IF n > Len(xs) THEN cur ELSE ReCat(xs, n + 1, s, UNION {ReEnds(xs[n], s, j) : j \in cur})
ReClosure(x, s, cur) ==
  LET next == cur \cup UNION {ReEnds(x, s, j) : j \in cur} IN
  IF next = cur THEN cur ELSE ReClosure(x, s, next)
ReMatch(a, s) == (Len(s) + 1) \in ReEnds(a, s, 1)

(* dictionary terms an expansion node stands for, over the documents of    *)
(* the index (all physical slots: deleted documents keep their terms)      *)
ExpansionTerms(D, docs, n) ==
  LET dict == FieldTerms(D, docs, n.f, n.kind) IN
  IF n.k = "prefix" THEN {t \in dict : IsPrefixCp(D[n.p].cp, D[t].cp)}
  ELSE IF n.k = "regex" THEN {t \in dict : ReMatch(n.ast, D[t].cp)}
  ELSE {t \in dict : WildMatch(D[n.p].cp, D[t].cp)}

ExpansionMatches(D, docs, d, n) ==
  n.kind \in {"text", "kw"} /\ \E t \in ExpansionTerms(D, docs, n) : DocHas(D, d, n.f, n.kind, t)

(* a phrase: positions p1 < p2 < ... with an alternative of term i at p_i  *)
(* and the gaps summing to at most slop                                    *)
RECURSIVE PhraseFrom(_, _, _, _, _)
PhraseFrom(toks, pos, i, prev, remaining) ==
  IF i > Len(pos) THEN TRUE
  ELSE \E p \in toks :
         /\ p[1] \in SeqToSet(pos[i])
         /\ p[2] > prev
         /\ p[2] - (prev + 1) <= remaining
         /\ PhraseFrom(toks, pos, i + 1, p[2], remaining - (p[2] - (prev + 1)))

PhraseAltMatches(d, alt, slop) ==
  LET toks == Toks(d, alt.f) IN
  /\ \A i \in DOMAIN alt.pos : alt.pos[i] # <<>>
  /\ \E p \in toks : p[1] \in SeqToSet(alt.pos[1]) /\ PhraseFrom(toks, alt.pos, 2, p[2], slop)

PhraseMatches(d, n) == \E i \in DOMAIN n.alts : PhraseAltMatches(d, n.alts[i], n.slop)

QsRequired(n) ==
  LET cnt == Len(n.groups) IN
  IF n.hasmsm THEN MinI(n.msmv, cnt) ELSE IF n.and THEN cnt ELSE 1

RECURSIVE Matches(_, _, _, _)
Matches(D, docs, d, q) ==
  CASE q.k = "all" -> TRUE
    [] q.k = "term" -> TermMatches(D, d, q)
    [] q.k \in {"prefix", "wild", "regex"} -> ExpansionMatches(D, docs, d, q)
    [] q.k = "phrase" -> PhraseMatches(d, q)
    [] q.k = "qs" ->
         /\ ~(q.groups = <<>> /\ q.phrases = <<>> /\ q.nots = <<>>)
         /\ \A i \in DOMAIN q.nots : ~TermMatches(D, d, q.nots[i])
         /\ \A i \in DOMAIN q.phrases : PhraseMatches(d, q.phrases[i])
         /\ q.groups # <<>> =>
              Cardinality({i \in DOMAIN q.groups : TermMatches(D, d, q.groups[i])}) >= QsRequired(q)
    [] q.k = "bool" ->
         LET nshould == Cardinality({i \in DOMAIN q.should : Matches(D, docs, d, q.should[i])})
             need == IF q.hasmsm THEN q.msm
                     ELSE IF q.should # <<>> /\ q.must = <<>> /\ q.filter = <<>> THEN 1 ELSE 0
         IN /\ \A i \in DOMAIN q.must : Matches(D, docs, d, q.must[i])
            /\ \A i \in DOMAIN q.mustnot : ~Matches(D, docs, d, q.mustnot[i])
            /\ PassesAll(D, d, q.filter)
            /\ nshould >= need
    [] q.k = "dismax" -> \E i \in DOMAIN q.qs : Matches(D, docs, d, q.qs[i])
    [] q.k = "const" -> Passes(D, d, q.g)
    [] q.k \in {"fscore", "fvf"} -> Matches(D, docs, d, q.q)

(* The documents a request must return when its limit covers all matches.  *)
Expected(D, docs, q, filters) ==
  {d \in docs : d.live /\ Matches(D, docs, d, q) /\ PassesAll(D, d, filters)}

-----------------------------------------------------------------------------
(* Expansion caps: the absolute oracle applies only while the number of    *)
(* dictionary terms an expansion matches is below its cap.                 *)
RECURSIVE UnderCaps(_, _, _)
UnderCaps(D, docs, q) ==
  CASE q.k \in {"prefix", "wild", "regex"} -> Cardinality(ExpansionTerms(D, docs, q)) < q.cap
    [] q.k = "bool" -> /\ \A i \in DOMAIN q.must : UnderCaps(D, docs, q.must[i])
                       /\ \A i \in DOMAIN q.should : UnderCaps(D, docs, q.should[i])
                       /\ \A i \in DOMAIN q.mustnot : UnderCaps(D, docs, q.mustnot[i])
    [] q.k = "dismax" -> \A i \in DOMAIN q.qs : UnderCaps(D, docs, q.qs[i])
    [] q.k \in {"fscore", "fvf"} -> UnderCaps(D, docs, q.q)
    [] OTHER -> TRUE

-----------------------------------------------------------------------------
(* Deviation S07a (known finding): the implementation draws candidates     *)
(* only from the postings of *scored* terms.  ScoredTerms(q) is the set of *)
(* <<field, kind, term>> the planner scores; when it is non-empty a        *)
(* document that contains none of them is never returned.                  *)
RECURSIVE ScoredTerms(_, _, _)
ScoredTerms(D, docs, q) ==
  CASE q.k = "term" ->
         IF q.sc THEN UNION {{<<q.alts[i].f, q.alts[i].kind, t>> : t \in SeqToSet(q.alts[i].toks)} : i \in DOMAIN q.alts}
                      \cup (IF "fz" \in DOMAIN q /\ q.fz.has
                              THEN UNION {UNION {{<<q.alts[i].f, q.alts[i].kind, c>> :
                                                    c \in FuzzyExp(D, docs, q.alts[i].f, q.alts[i].kind, t, q.fz)} :
                                                 t \in SeqToSet(q.alts[i].toks)} : i \in DOMAIN q.alts}
                              ELSE {})
         ELSE {}
    [] q.k \in {"prefix", "wild", "regex"} ->
         IF q.sc /\ q.kind \in {"text", "kw"} THEN {<<q.f, q.kind, t>> : t \in ExpansionTerms(D, docs, q)} ELSE {}
    [] q.k = "qs" -> UNION {ScoredTerms(D, docs, q.groups[i]) : i \in DOMAIN q.groups}
    [] q.k = "bool" -> UNION ({ScoredTerms(D, docs, q.must[i]) : i \in DOMAIN q.must}
                              \cup {ScoredTerms(D, docs, q.should[i]) : i \in DOMAIN q.should})
    [] q.k = "dismax" -> UNION {ScoredTerms(D, docs, q.qs[i]) : i \in DOMAIN q.qs}
    [] q.k \in {"fscore", "fvf"} -> ScoredTerms(D, docs, q.q)
    [] OTHER -> {}

ExpectedAsBuilt(D, docs, q, filters) ==
  LET st == ScoredTerms(D, docs, q) IN
  {d \in Expected(D, docs, q, filters) :
     st = {} \/ \E x \in st : DocHas(D, d, x[1], x[2], x[3])}

=============================================================================
