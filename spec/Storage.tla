------------------------------ MODULE Storage ------------------------------
(***************************************************************************)
(* File-system model with volatile and durable views, used for crash      *)
(* reasoning (C01, C02, C28) by both the bounded model (MC_Durability)    *)
(* and the trace specification (Trace_Crash).                             *)
(*                                                                         *)
(* A file system value `fs` is a record                                    *)
(*   vdir   : name -> ino            the directory as the process sees it *)
(*   files  : ino -> [synced : Seq(Chunk), ops : Seq(DataOp)]             *)
(*   dirLog : Seq(DirOp)             every directory operation so far     *)
(*   dur    : 0..Len(dirLog)         prefix of dirLog known durable       *)
(*   link   : ino -> index in dirLog of the op that gave the ino its name *)
(*                                                                         *)
(* Chunk  == [tag, len]      an abstract piece of content, len bytes;     *)
(*                           tag is a record with a `kind` field          *)
(* DataOp == [k |-> "w", c |-> Chunk]  append/overwrite-at-end write      *)
(*         | [k |-> "t", n |-> Nat]    set_len(n)                         *)
(* DirOp  == [k |-> "create", name, ino] | [k |-> "rename", from, to]     *)
(*         | [k |-> "unlink", name]                                       *)
(*                                                                         *)
(* THE CRASH MODEL (stated, not implied):                                 *)
(*  * directory operations become durable in order: a crash leaves the    *)
(*    durable prefix plus any further prefix of the not-yet-durable ops;  *)
(*    FsyncDir makes all of them durable; Fsync(ino) additionally makes   *)
(*    durable the prefix up to the operation that linked ino's name       *)
(*    (journalled metadata, as on ext4/xfs);                              *)
(*  * file data: the durable content of an inode is its last fsynced      *)
(*    content followed by any prefix of the data operations issued since, *)
(*    the last kept write possibly torn at any byte; different inodes     *)
(*    persist independently.                                              *)
(***************************************************************************)
EXTENDS Naturals, Sequences, FiniteSets

Chunk(tag, len) == [tag |-> tag, len |-> len]
WOp(c) == [k |-> "w", c |-> c, n |-> 0, off |-> 0]
WOpAt(off, len) == [k |-> "w", c |-> Chunk([kind |-> "bytes"], len), n |-> 0, off |-> off]
TOp(n) == [k |-> "t", c |-> Chunk([kind |-> "none"], 0), n |-> n, off |-> 0]

RECURSIVE ContentLen(_)
ContentLen(s) == IF s = <<>> THEN 0 ELSE Head(s).len + ContentLen(Tail(s))

(* Cut a chunk sequence to n bytes; a chunk cut in the middle becomes TORN *)
RECURSIVE CutTo(_, _)
CutTo(s, n) ==
  IF n = 0 \/ s = <<>> THEN <<>>
  ELSE IF Head(s).len <= n THEN <<Head(s)>> \o CutTo(Tail(s), n - Head(s).len)
  ELSE <<Chunk([kind |-> "torn"], n)>>

ApplyOp(content, op) ==
  IF op.k = "w" THEN Append(content, op.c)
  ELSE IF op.n >= ContentLen(content)
         THEN (IF op.n = ContentLen(content) THEN content
               ELSE Append(content, Chunk([kind |-> "zero"], op.n - ContentLen(content))))
         ELSE CutTo(content, op.n)

RECURSIVE ApplyOps(_, _)
ApplyOps(content, ops) ==
  IF ops = <<>> THEN content ELSE ApplyOps(ApplyOp(content, Head(ops)), Tail(ops))

VolContent(f) == ApplyOps(f.synced, f.ops)

EmptyFs == [vdir |-> [x \in {} |-> 0], files |-> [x \in {} |-> 0], dirLog |-> <<>>,
            dur |-> 0, link |-> [x \in {} |-> 0]]

Ext(f, k, v) == [x \in (DOMAIN f) \cup {k} |-> IF x = k THEN v ELSE f[x]]
Del(f, k) == [x \in (DOMAIN f) \ {k} |-> f[x]]

NewIno(fs) == Cardinality(DOMAIN fs.files) + 1

(* --- operations (each returns the new fs) ------------------------------ *)

(* open for writing with O_CREAT: new inode when the name is free          *)
FsCreate(fs, name) ==
  IF name \in DOMAIN fs.vdir
    THEN [fs EXCEPT !.files[fs.vdir[name]].ops = Append(@, TOp(0))]      \* O_TRUNC
    ELSE LET i == NewIno(fs) IN
         [fs EXCEPT !.vdir = Ext(@, name, i),
                    !.files = Ext(@, i, [synced |-> <<>>, ops |-> <<>>]),
                    !.dirLog = Append(@, [k |-> "create", name |-> name, ino |-> i, to |-> ""]),
                    !.link = Ext(@, i, Len(fs.dirLog) + 1)]

FsOpenAppend(fs, name) ==
  IF name \in DOMAIN fs.vdir THEN fs ELSE FsCreate(fs, name)

FsWrite(fs, ino, chunk) == [fs EXCEPT !.files[ino].ops = Append(@, WOp(chunk))]

FsSetLen(fs, ino, n) == [fs EXCEPT !.files[ino].ops = Append(@, TOp(n))]

Max(a, b) == IF a >= b THEN a ELSE b

FsFsync(fs, ino) ==
  [fs EXCEPT !.files[ino] = [synced |-> VolContent(@), ops |-> <<>>],
             !.dur = Max(@, IF ino \in DOMAIN fs.link THEN fs.link[ino] ELSE 0)]

FsFsyncDir(fs) == [fs EXCEPT !.dur = Len(fs.dirLog)]

FsRename(fs, from, to) ==
  LET i == fs.vdir[from] IN
  [fs EXCEPT !.vdir = Ext(Del(@, from), to, i),
             !.dirLog = Append(@, [k |-> "rename", name |-> from, ino |-> i, to |-> to]),
             !.link = Ext(@, i, Len(fs.dirLog) + 1)]

FsUnlink(fs, name) ==
  IF name \notin DOMAIN fs.vdir THEN fs
  ELSE [fs EXCEPT !.vdir = Del(@, name),
                  !.dirLog = Append(@, [k |-> "unlink", name |-> name, ino |-> fs.vdir[name], to |-> ""])]

(* --- durable views ----------------------------------------------------- *)

ApplyDirOp(d, op) ==
  CASE op.k = "create" -> Ext(d, op.name, op.ino)
    [] op.k = "rename" -> Ext(Del(d, op.name), op.to, op.ino)
    [] op.k = "unlink" -> Del(d, op.name)

RECURSIVE DirAfter(_, _, _)
DirAfter(d, log, n) ==
  IF n = 0 \/ log = <<>> THEN d ELSE DirAfter(ApplyDirOp(d, Head(log)), Tail(log), n - 1)

(* directory contents when the first n operations of dirLog persisted, on  *)
(* top of the directory `base` that existed when recording started         *)
DirPrefix(fs, base, n) == DirAfter(base, fs.dirLog, n)

(* content of a file when its first k unsynced ops persisted and t bytes   *)
(* of op k+1 (t = 0: none)                                                  *)
DataPrefix(f, k, t) ==
  LET full == ApplyOps(f.synced, SubSeq(f.ops, 1, k)) IN
  IF t = 0 THEN full ELSE Append(full, Chunk([kind |-> "torn"], t))

LegalData(f, k, t) ==
  /\ k \in 0..Len(f.ops)
  /\ t > 0 => /\ k < Len(f.ops)
              /\ f.ops[k + 1].k = "w"
              /\ t < f.ops[k + 1].c.len

(* number of distinct legal (k, t) choices for a file                      *)
RECURSIVE TornChoices(_)
TornChoices(ops) ==
  IF ops = <<>> THEN 0
  ELSE (IF Head(ops).k = "w" /\ Head(ops).c.len > 1 THEN Head(ops).c.len - 1 ELSE 0)
       + TornChoices(Tail(ops))
DataChoices(f) == Len(f.ops) + 1 + TornChoices(f.ops)

(* length-only view (trace validation): writes carry their offset          *)
RECURSIVE LenAfterOps(_, _)
LenAfterOps(len0, ops) ==
  IF ops = <<>> THEN len0
  ELSE LET o == Head(ops) IN
       LenAfterOps(IF o.k = "w" THEN (IF o.off + o.c.len > len0 THEN o.off + o.c.len ELSE len0)
                   ELSE o.n, Tail(ops))

LenPrefix(len0, ops, k, t) ==
  LET l1 == LenAfterOps(len0, SubSeq(ops, 1, k)) IN
  IF t = 0 THEN l1
  ELSE LET o == ops[k + 1] IN IF o.off + t > l1 THEN o.off + t ELSE l1

DirChoices(fs) == Len(fs.dirLog) - fs.dur + 1

=============================================================================
