------------------------------- MODULE Suggest -------------------------------
(***************************************************************************)
(* C22: completion suggestions (README "Suggestions").                     *)
(*                                                                         *)
(* The term dictionary of a field in a segment is derived from the corpus  *)
(* (Search.tla FieldTerms over the documents of the segment; text fields:  *)
(* index-analysed tokens, keyword fields: ASCII-lower-cased values).       *)
(*   input    = for a text field the LAST token the field's search         *)
(*              analyzer makes of the prefix (the raw prefix when there is *)
(*              none); for a keyword field the ASCII-lower-cased prefix    *)
(*   options  = terms that start with the input, or - with fuzzy options - *)
(*              terms within max_edits (Levenshtein over code points) of   *)
(*              the input that share its first prefix_length code points   *)
(*   doc_freq = sum over the segments of the documents holding the term    *)
(*   score    = doc_freq (prefix) / doc_freq / (distance + 1) (fuzzy)      *)
(*   order    = score descending, then text ascending (code points);       *)
(*              at most `size` options                                     *)
(* asserted while the number of matching (segment, term) pairs is below    *)
(* the scan cap (prefix: size*5 clamped to 64..256; fuzzy: max_expansions  *)
(* capped at 256, at least size).                                          *)
(***************************************************************************)
EXTENDS ListOps

SegsOf(docs) == {d.seg : d \in docs}
SegTerms(D, docs, s, f, kind) == FieldTerms(D, SegDocs(docs, s), f, kind)
TotalDf(D, docs, f, kind, t) == SumSet(SegsOf(docs), LAMBDA s : Df(D, docs, s, f, kind, t))

AnalysedInput(D, kind, raw, toks) ==
  IF kind = "kw" THEN D[raw].alc
  ELSE IF toks = <<>> THEN raw ELSE toks[Len(toks)]

(* bounded Levenshtein distance: is the edit distance of a and b at most k *)
RECURSIVE Within(_, _, _)
Within(a, b, k) ==
  IF k < 0 THEN FALSE
  ELSE IF a = <<>> THEN Len(b) <= k
  ELSE IF b = <<>> THEN Len(a) <= k
  ELSE IF Head(a) = Head(b) THEN Within(Tail(a), Tail(b), k)
  ELSE \/ Within(Tail(a), b, k - 1)
       \/ Within(a, Tail(b), k - 1)
       \/ Within(Tail(a), Tail(b), k - 1)

Dist(a, b, kmax) == CHOOSE k \in 0..kmax : Within(a, b, k) /\ \A j \in 0..(k - 1) : ~Within(a, b, j)

SharePrefix(a, b, n) ==
  LET m == MinI(n, Len(a)) IN Len(b) >= m /\ \A i \in 1..m : a[i] = b[i]

(* fz = [has, edits, plen, maxexp, minlen] *)
Accepts(D, input, fz, t) ==
  IF fz.has
    THEN SharePrefix(D[input].cp, D[t].cp, fz.plen) /\ Within(D[input].cp, D[t].cp, fz.edits)
    ELSE IsPrefixCp(D[input].cp, D[t].cp)

DistOf(D, input, fz, t) == IF fz.has THEN Dist(D[input].cp, D[t].cp, fz.edits) ELSE 0

MatchingPairs(D, docs, f, kind, input, fz) ==
  SumSet(SegsOf(docs), LAMBDA s : Cardinality({t \in SegTerms(D, docs, s, f, kind) : Accepts(D, input, fz, t)}))

ScanCap(size, fz) ==
  IF fz.has THEN MaxI(MinI(fz.maxexp, 256), size)
  ELSE MaxI(64, MinI(256, size * 5))

Candidates(D, docs, f, kind, input, fz) ==
  {[t |-> t, df |-> TotalDf(D, docs, f, kind, t), dist |-> DistOf(D, input, fz, t)] :
     t \in {x \in FieldTerms(D, docs, f, kind) : Accepts(D, input, fz, x)}}

(* score a > score b, exactly: df_a / (dist_a + 1) > df_b / (dist_b + 1) *)
Better(D, a, b) ==
  LET x == a.df * (b.dist + 1)  y == b.df * (a.dist + 1) IN
  x > y \/ (x = y /\ StrLess(D, a.t, b.t))

ExpectedOptions(D, docs, f, kind, input, fz, size) ==
  LET c == Candidates(D, docs, f, kind, input, fz)
      all == SortSetBy(c, LAMBDA a, b : Better(D, a, b))
  IN SubSeq(all, 1, MinI(size, Len(all)))

ScoreE4(o) == (o.df * S) \div (o.dist + 1)

-----------------------------------------------------------------------------
(* Trace check.  e.obs.options = [t, df, sc (score x 10^4), sb (order-     *)
(* preserving image of the f32 score)]; e.first = the options the same     *)
(* request returned on the first segment layout of the same documents.     *)

CheckSuggest(D, docs, e, l, scn) ==
  LET input == AnalysedInput(D, e.kind, e.raw, e.toks)
      fz == e.fuzzy
      o == e.obs.options
      dict == FieldTerms(D, docs, e.field, e.kind)
      sortedObs == \A i \in 1..(Len(o) - 1) :
                      o[i].sb > o[i + 1].sb \/ (o[i].sb = o[i + 1].sb /\ StrLess(D, o[i].t, o[i + 1].t))
      members == \A i \in DOMAIN o : o[i].t \in dict /\ Accepts(D, input, fz, o[i].t)
      (* README is silent on a fuzzy request whose input is shorter than min_length *)
      specified == ~fz.has \/ Len(D[input].cp) >= fz.minlen
      underCap == MatchingPairs(D, docs, e.field, e.kind, input, fz) < ScanCap(e.size, fz)
      exp == ExpectedOptions(D, docs, e.field, e.kind, input, fz, e.size)
      sameTexts == [i \in DOMAIN o |-> o[i].t] = [i \in DOMAIN exp |-> exp[i].t]
      sameDf == \A i \in DOMAIN o : o[i].df = exp[i].df
      sameScore == \A i \in DOMAIN o : Close(o[i].sc, ScoreE4(exp[i]))
      sameLayout == e.hasfirst =>
                      [i \in DOMAIN o |-> <<o[i].t, o[i].df>>] = [i \in DOMAIN e.first |-> <<e.first[i].t, e.first[i].df>>]
  IN IF ~e.obs.ok THEN Tell("FAIL", e.prop, l, scn, e, "search returned an error", "")
     ELSE IF Len(o) > e.size THEN Tell("FAIL", e.prop, l, scn, e, "more options than size", "")
     ELSE IF ~sortedObs THEN Tell("FAIL", e.prop, l, scn, e, "options are not sorted by score descending then text", "")
     ELSE IF ~members
       THEN Tell("FAIL", e.prop, l, scn, e, "an option is not an indexed term of the field that starts with (or is within max_edits of) the analysed prefix", "")
     ELSE IF ~(specified /\ underCap) THEN TRUE
     ELSE IF ~sameTexts THEN Tell("FAIL", e.prop, l, scn, e, "the options are not the best `size` matching terms of the dictionary", "")
     ELSE IF ~sameDf THEN Tell("FAIL", e.prop, l, scn, e, "doc_freq is not the number of indexed documents containing the term", "")
     ELSE IF ~sameScore THEN Tell("FAIL", e.prop, l, scn, e, "a score is not doc_freq (divided by distance + 1 for fuzzy options)", "")
     ELSE IF ~sameLayout THEN Tell("FAIL", e.prop, l, scn, e, "the options depend on the segment layout", "")
     ELSE TRUE

=============================================================================
