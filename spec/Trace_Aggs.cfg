SPECIFICATION TSpec
POSTCONDITION TraceAccepted
CHECK_DEADLOCK FALSE
