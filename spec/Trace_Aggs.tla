----------------------------- MODULE Trace_Aggs -----------------------------
(***************************************************************************)
(* Trace validation of aggregation responses (C12, C13, C30) against the  *)
(* reference semantics of Aggs.tla over the matched set of Search.tla.    *)
(*                                                                         *)
(* Events (svh aggs): reset, dict, corpus (several per scenario in mode   *)
(* `layouts`: the same final contents committed under another segment     *)
(* layout), then `agg` events:                                             *)
(*   check "layout" (C12)  one request on one layout: the response must    *)
(*         equal Ref(Expected(q, filters), aggs) - hence all layouts agree *)
(*         (also compared with the first layout's response directly)       *)
(*   check "paging" (C13)  one request under many variations: every        *)
(*         variant's aggregations equal the same absolute expectation,     *)
(*         suggestions are identical                                        *)
(*   check "walk"   (C30)  a composite aggregation paged through after_key *)
(*                                                                         *)
(* Named deviations (known findings), tried only after the ideal failed:   *)
(*   S07a  the matched set is the as-built one (ExpectedAsBuilt)           *)
(*   S12a  thresholds / sizes applied per segment before the merge         *)
(*   S12b  top_hits `from` skipped per segment and again at every merge    *)
(*   S12c  range buckets with equal keys collide in the merge               *)
(*   S13a  on a cursor page the collector only sees documents after the    *)
(*         cursor key                                                       *)
(*   S30a  a composite histogram source over an i64 field yields no value  *)
(* A deviation is reported only when its exact prediction equals the       *)
(* observation.  Verdicts are non-blocking.                                *)
(***************************************************************************)
EXTENDS Aggs, IOUtils

Rec == ndJsonDeserialize(IOEnv.TRACE)

VARIABLES l, D, docs, info, first

vars == <<l, D, docs, info, first>>

Say(kind, prop, e, why, extra) ==
  PrintT(ToJson([kind |-> kind, property |-> prop, line |-> l, scn |-> info.scn,
                 check |-> e.check, why |-> why, deviation |-> extra]))

TInit ==
  /\ l = 1
  /\ D = [x \in {} |-> 0]
  /\ docs = {}
  /\ info = [scn |-> 0]
  /\ first = <<>>

LoadDict(e) ==
  D' = [s \in {e.entries[i].s : i \in DOMAIN e.entries} |->
          LET x == CHOOSE y \in SeqToSet(e.entries) : y.s = s IN
          [cp |-> x.cp, lc |-> x.lc, alc |-> x.alc]]

(* aggregations only look at identity, placement and the fast-field values *)
(* of a document: drop the analysed text (cheaper set operations in TLC)   *)
Slim(M) == {[id |-> d.id, seg |-> d.seg, ord |-> d.ord, live |-> d.live, kw |-> d.kw, i64 |-> d.i64, f64 |-> d.f64,
             nested |-> d.nested] : d \in M}

-----------------------------------------------------------------------------
(* as-built views of a request                                             *)

(* S30a: CompositeCollector reads histogram sources with f64_values, which *)
(* is empty for an i64 column: the source behaves like a field without     *)
(* values (here: the f64 view of a field that has no f64 values)           *)
RECURSIVE View30(_)
View30Subs(subs) == [i \in DOMAIN subs |-> [name |-> subs[i].name, a |-> View30(subs[i].a)]]
View30(a) ==
  IF IsLeaf(a) THEN a
  ELSE IF a.t = "comp"
    THEN [a EXCEPT !.sources = [i \in DOMAIN a.sources |->
                                  IF a.sources[i].k = "hist" THEN [a.sources[i] EXCEPT !.fk = "f64"] ELSE a.sources[i]],
                   !.subs = View30Subs(a.subs)]
  ELSE [a EXCEPT !.subs = View30Subs(a.subs)]

(* the ceiling reading of date_histogram nodes (see Aggs.tla HistKey) *)
RECURSIVE ViewCeil(_)
ViewCeilSubs(subs) == [i \in DOMAIN subs |-> [name |-> subs[i].name, a |-> ViewCeil(subs[i].a)]]
ViewCeil(a) ==
  IF IsLeaf(a) THEN a
  ELSE IF a.t = "hist" /\ a.rnd = "either" THEN [a EXCEPT !.rnd = "ceil", !.subs = ViewCeilSubs(a.subs)]
  ELSE [a EXCEPT !.subs = ViewCeilSubs(a.subs)]

(* can the per-segment forms differ from the reference at all *)
RECURSIVE Prone12a(_)
Prone12a(a) ==
  IF IsLeaf(a) THEN FALSE
  ELSE \/ a.t = "terms" /\ (a.hassize \/ a.hasshard \/ a.mdc > 1)
       \/ a.t = "rare"
       \/ a.t = "hist" /\ HistMdc(a) > 1
       \/ \E i \in DOMAIN a.subs : Prone12a(a.subs[i].a)
RECURSIVE Prone12c(_)
Prone12c(a) ==
  IF IsLeaf(a) THEN FALSE
  ELSE \/ a.t = "range" /\ \E i, j \in DOMAIN a.ranges : i # j /\ a.ranges[i].key = a.ranges[j].key
       \/ \E i \in DOMAIN a.subs : Prone12c(a.subs[i].a)
RECURSIVE Prone12b(_)
Prone12b(a) ==
  IF IsLeaf(a) THEN a.t = "tophits" /\ a.from > 0 ELSE \E i \in DOMAIN a.subs : Prone12b(a.subs[i].a)

(* candidate explanations of an observation, most ideal first.  Forms: "exact" = the reference with  *)
(* ties between equal counts broken by key (what the code does), then the per-segment forms,         *)
(* "loose" = the reference with ties not asserted (the README states no tie order)                   *)
CandsFor(Mi, Mb, aggs) ==
  LET a30 == View30Subs(aggs)
      ms == IF Mb = Mi THEN << [M |-> Mi, d |-> {}] >> ELSE << [M |-> Mi, d |-> {}], [M |-> Mb, d |-> {"S07a"}] >>
      ts == IF a30 = aggs THEN << [a |-> aggs, d |-> {}] >> ELSE << [a |-> aggs, d |-> {}], [a |-> a30, d |-> {"S30a"}] >>
      prone == (IF \E i \in DOMAIN aggs : Prone12a(aggs[i].a) THEN {"S12a"} ELSE {})
               \cup (IF \E i \in DOMAIN aggs : Prone12b(aggs[i].a) THEN {"S12b"} ELSE {})
               \cup (IF \E i \in DOMAIN aggs : Prone12c(aggs[i].a) THEN {"S12c"} ELSE {})
      BySize(k) == SetToSeq({x \in SUBSET prone : Cardinality(x) = k})
      segs == BySize(1) \o BySize(2) \o BySize(3)
      modes == << [form |-> "exact", d |-> {}] >>
               \o [i \in DOMAIN segs |-> [form |-> "seg", d |-> segs[i]]]
               \o << [form |-> "loose", d |-> {}] >>
      nm == Len(ms)  nt == Len(ts)
  IN [i \in 1..(nm * nt * Len(modes)) |->
        LET m == ms[((i - 1) % nm) + 1]
            t == ts[(((i - 1) \div nm) % nt) + 1]
            o == modes[((i - 1) \div (nm * nt)) + 1]
        IN [M |-> m.M, aggs |-> t.a, form |-> o.form, mode |-> o.d, devs |-> m.d \cup t.d \cup o.d]]

(* date_histogram: every explanation under the rounding-up reading (what the code does) is tried before *)
(* any explanation under the rounding-down reading                                                       *)
Cands(Mi, Mb, aggs) ==
  IF ViewCeilSubs(aggs) = aggs THEN CandsFor(Mi, Mb, aggs)
  ELSE CandsFor(Mi, Mb, ViewCeilSubs(aggs)) \o CandsFor(Mi, Mb, aggs)

Explains(c, nseg, obs) ==
  IF c.form = "seg" THEN AgreeAll(D, ShapedAll(D, PartsOf(c.M, nseg), c.aggs, c.mode), obs, TRUE)
  ELSE AgreeAll(D, RefAll(D, c.M, c.aggs), obs, c.form = "exact")

RECURSIVE FirstHit(_, _, _, _)
FirstHit(cs, i, nseg, obs) ==
  IF i > Len(cs) THEN 0 ELSE IF Explains(cs[i], nseg, obs) THEN i ELSE FirstHit(cs, i + 1, nseg, obs)

(* the deviations needed to explain obs: {} = ideal; {"FAIL"} = unexplained *)
DevsOf(cs, nseg, obs) ==
  LET h == FirstHit(cs, 1, nseg, obs) IN IF h = 0 THEN {"FAIL"} ELSE cs[h].devs

Why(dv) ==
  CASE dv = "S07a" -> "aggregated over the as-built matched set (only documents containing a scored term are candidates)"
    [] dv = "S12a" -> "min_doc_count / max_doc_count / size applied per segment before the merge"
    [] dv = "S12b" -> "top_hits `from` skipped by every segment collector and again by every merge"
    [] dv = "S12c" -> "range buckets with equal keys collide when the segment results are merged"
    [] dv = "S13a" -> "aggregations on a cursor page cover only the documents after the cursor"
    [] dv = "S30a" -> "composite histogram source over an i64 field produces no buckets"
    [] OTHER -> dv

Report(e, devs, failwhy, label) ==
  IF "FAIL" \in devs THEN Say("FAIL", e.prop, e, failwhy, label)
  ELSE \A dv \in devs : Say("DEV", e.prop, e, Why(dv), dv)

-----------------------------------------------------------------------------
(* top_hits ids depend on the (segment, doc) tie-break and are excluded    *)
(* from the layout-to-layout comparison; so are the derived floating point *)
(* metrics (avg, variance, std_deviation), whose last digit depends on the *)
(* merge order and which the absolute comparison judges with a tolerance   *)
RECURSIVE Strip(_)
StripSubs(subs) == [i \in DOMAIN subs |-> [name |-> subs[i].name, r |-> Strip(subs[i].r)]]
Strip(r) ==
  IF r.t = "tophits" THEN [t |-> "tophits", total |-> r.total]
  ELSE IF r.t \in {"stats", "estats"}
    THEN [t |-> r.t, count |-> r.count, min4 |-> r.min4, max4 |-> r.max4, sum4 |-> r.sum4, exact |-> r.exact]
  ELSE IF r.t = "buckets" THEN [r EXCEPT !.bs = [i \in DOMAIN r.bs |-> [r.bs[i] EXCEPT !.subs = StripSubs(r.bs[i].subs)]]]
  ELSE IF r.t = "filter" THEN [r EXCEPT !.subs = StripSubs(r.subs)]
  ELSE r

(* C12 *)
CheckLayout(e) ==
  IF ~UnderCaps(D, docs, e.q) THEN first' = first
  ELSE
    LET Mi == Slim(Expected(D, docs, e.q, e.filters))
        Mb == Slim(ExpectedAsBuilt(D, docs, e.q, e.filters))
        devs == IF ~e.obs.ok THEN {"FAIL"} ELSE DevsOf(Cands(Mi, Mb, e.aggs), e.nseg, e.obs.aggs)
        mine == [seen |-> TRUE, clean |-> devs = {}, aggs |-> IF e.obs.ok THEN StripSubs(e.obs.aggs) ELSE <<>>]
        prev == first[e.rid]
    IN /\ Report(e, devs, IF ~e.obs.ok THEN "search returned an error"
                          ELSE "aggregation response differs from the reference computation over the matched documents", "")
       /\ (prev.seen /\ prev.clean /\ mine.clean /\ prev.aggs # mine.aggs) =>
             Say("FAIL", e.prop, e, "the response differs from the response of the first segment layout", "")
       /\ first' = IF prev.seen THEN first ELSE [first EXCEPT ![e.rid] = mine]

-----------------------------------------------------------------------------
(* C13 *)
CheckPagingAggs(e) ==
  IF ~UnderCaps(D, docs, e.q) THEN TRUE
  ELSE
    LET Mi == Slim(Expected(D, docs, e.q, e.filters))
        Mb == Slim(ExpectedAsBuilt(D, docs, e.q, e.filters))
        vs == e.variants
        bad == {i \in DOMAIN vs : ~vs[i].obs.ok}
        (* the documents strictly after the cursor of variant v in the walk's sort plan, *)
        (* scores taken from the covering request                                          *)
        Sb(d) == e.fullsb[CHOOSE i \in DOMAIN e.fullids : e.fullids[i] = d.id]
        After(M, v) == {d \in M : /\ d.id \in SeqToSet(e.fullids)
                                  /\ CmpKeys(D, e.sort, LiveDoc(Slim(docs), v.afterid), v.aftersb, d, Sb(d)) < 0}
        plain == {i \in DOMAIN vs : vs[i].obs.ok /\ ~vs[i].haspos}
        paged == {i \in DOMAIN vs : vs[i].obs.ok /\ vs[i].haspos}
        distinct == {vs[i].obs.aggs : i \in plain}
        Label(o) == vs[CHOOSE i \in plain : vs[i].obs.aggs = o].label
        devsOf == [o \in distinct |-> DevsOf(Cands(Mi, Mb, e.aggs), e.nseg, o)]
        PageDevs(v) ==
          LET whole == DevsOf(Cands(Mi, Mb, e.aggs), e.nseg, v.obs.aggs) IN
          IF "FAIL" \notin whole THEN whole
          ELSE LET part == DevsOf(Cands(After(Mi, v), After(Mb, v), e.aggs), e.nseg, v.obs.aggs) IN
               IF "FAIL" \in part THEN part ELSE part \cup {"S13a"}
        sug == vs[1].obs.suggest
    IN /\ \A i \in bad : Say("FAIL", e.prop, e, "a variant of the request returned an error", vs[i].label)
       /\ \A o \in distinct :
            Report(e, devsOf[o],
                   "aggregations differ from the reference computation over the matched documents", Label(o))
       /\ Cardinality({StripSubs(o) : o \in {x \in distinct : devsOf[x] = {}}}) > 1 =>
            Say("FAIL", e.prop, e, "aggregations differ between variants of one request", "")
       /\ \A i \in paged :
            Report(e, PageDevs(vs[i]),
                   "aggregations of a cursor page differ from the reference computation over the matched documents", vs[i].label)
       /\ \A i \in DOMAIN vs : (vs[i].obs.ok /\ vs[1].obs.ok /\ vs[i].obs.suggest # sug) =>
            Say("FAIL", e.prop, e, "suggestions differ between variants of one request", vs[i].label)

-----------------------------------------------------------------------------
(* C30 *)
RECURSIVE ConcatBs(_)
ConcatBs(pages) == IF pages = <<>> THEN <<>> ELSE Head(pages).bs \o ConcatBs(Tail(pages))

CheckWalk(e) ==
  IF ~UnderCaps(D, docs, e.q) THEN TRUE
  ELSE
    LET Mi == Slim(Expected(D, docs, e.q, e.filters))
        Mb == Slim(ExpectedAsBuilt(D, docs, e.q, e.filters))
        n == Len(e.pages)
        allOk == e.unpaged.ok /\ \A i \in 1..n : e.pages[i].ok
        U == e.unpaged.aggs[1].r
        P == [i \in 1..n |-> e.pages[i].aggs[1].r]
        shapes == U.t = "buckets" /\ \A i \in 1..n : P[i].t = "buckets"
        keysOk == /\ \A i \in 1..(n - 1) : P[i].hasafter /\ P[i].bs # <<>> /\ P[i].after = P[i].bs[Len(P[i].bs)].key
                  /\ ~P[n].hasafter
        sizesOk == /\ \A i \in 1..(n - 1) : Len(P[i].bs) = e.psize
                   /\ Len(P[n].bs) <= e.psize
                   /\ n > 1 => P[n].bs # <<>>
        devs == DevsOf(Cands(Mi, Mb, e.aggs), e.nseg, e.unpaged.aggs)
    IN IF ~allOk THEN Say("FAIL", e.prop, e, "a page of the composite walk (or the unpaged request) returned an error", "")
       ELSE IF ~shapes THEN Say("FAIL", e.prop, e, "response is not a composite aggregation", "")
       ELSE IF e.guard THEN Say("FAIL", e.prop, e, "the composite walk does not terminate", "")
       ELSE IF U.hasafter THEN Say("FAIL", e.prop, e, "after_key present although the request covers all buckets", "")
       ELSE IF ConcatBs(P) # U.bs
         THEN Say("FAIL", e.prop, e, "pages concatenated differ from the unpaged buckets (missing, duplicated, reordered or other counts)", "")
       ELSE IF ~keysOk
         THEN Say("FAIL", e.prop, e, "after_key is not the last returned key / not absent exactly on the last page", "")
       ELSE IF ~sizesOk THEN Say("FAIL", e.prop, e, "short page inside the walk or empty last page", "")
       ELSE IF e.relonly THEN TRUE    \* interval not representable in quarter units: relational clauses only
       ELSE Report(e, devs, "unpaged composite buckets differ from the reference computation", "")

Judge(e) ==
  CASE e.check = "layout" -> CheckLayout(e)
    [] e.check = "paging" -> CheckPagingAggs(e) /\ first' = first
    [] e.check = "walk" -> CheckWalk(e) /\ first' = first
    [] OTHER -> Say("TOOL", e.prop, e, "unknown check kind", "") /\ first' = first

Unseen == [seen |-> FALSE, clean |-> FALSE, aggs |-> <<>>]

TNext ==
  /\ l <= Len(Rec)
  /\ l' = l + 1
  /\ LET e == Rec[l] IN
       CASE e.ev = "reset" -> /\ info' = e /\ D' = [x \in {} |-> 0] /\ docs' = {}
                              /\ first' = [i \in 1..e.nreq |-> Unseen]
         [] e.ev = "dict" -> LoadDict(e) /\ UNCHANGED <<docs, info, first>>
         [] e.ev = "corpus" -> docs' = SeqToSet(e.docs) /\ UNCHANGED <<D, info, first>>
         [] e.ev = "agg" -> Judge(e) /\ UNCHANGED <<D, docs, info>>

TSpec == TInit /\ [][TNext]_vars

TraceAccepted ==
  LET d == TLCGet("stats").diameter IN
  IF d = Len(Rec) + 1
    THEN PrintT(ToJson([kind |-> "DONE", events |-> Len(Rec)]))
    ELSE /\ PrintT(ToJson([kind |-> "STUCK", at |-> d, events |-> Len(Rec)]))
         /\ FALSE
=============================================================================
