---------------------------- MODULE Trace_Browser ----------------------------
(***************************************************************************)
(* Trace validation for C27.  The trace (svw run) records, for the REAL    *)
(* wasm.rs re-hosted on a simulated page, every step the driver took       *)
(*   add / commit     exported calls (synchronous part)                    *)
(*   task             one poll of a spawn_local task, the IndexedDB        *)
(*                    requests it issued, the commit promise it settled    *)
(*   idb              one IndexedDB request completed                      *)
(*   close, reload    the page was closed; a fresh `init` + search on what *)
(*                    IndexedDB held                                       *)
(* Two things are judged:                                                  *)
(*  1. the property itself on the OBSERVATIONS (ideal): the reload opens   *)
(*     and searches (ReloadOpens), holds the contents of a commit that had *)
(*     started (ReloadIsSomeCommit) that is not older than any commit      *)
(*     whose promise resolved (ResolvedCommitPresent);                     *)
(*  2. the as-built protocol model Browser.tla is replayed step by step    *)
(*     (each event is the model action with the logged parameters).  A     *)
(*     failed reload that the model predicts exactly (its IndexedDB map    *)
(*     holds manifest j without a complete segment j) is the named         *)
(*     deviation S27a -> DEV; anything else -> FAIL.  Disagreement between *)
(*     model and code that does not touch the property is reported as      *)
(*     DRIFT (never a violation).                                          *)
(***************************************************************************)
EXTENDS Naturals, Sequences, FiniteSets, TLC, Json, IOUtils

Rec == ndJsonDeserialize(IOEnv.TRACE)

Ids == {"a", "b"}

\* which protocol model is replayed: the as-built one, or the one with proposed_fixes/S27a.diff
FixEnv == IF "FIX" \in DOMAIN IOEnv THEN IOEnv.FIX ELSE "none"

VARIABLES pg, idb, app, closed, sched,   \* Browser.tla
          l, info, drift, odocs, ok, ores

B == INSTANCE Browser WITH IdSet <- Ids, MaxCommits <- 1000,
                           SegFiles <- <<"docs", "post", "terms", "fast", "meta">>,
                           TaskOrder <- "any", IdbOrder <- "any", Bug <- "none", Fix <- FixEnv

bvars == <<pg, idb, app, closed, sched>>
vars == <<pg, idb, app, closed, sched, l, info, drift, odocs, ok, ores>>

SeqToSet(s) == {s[i] : i \in DOMAIN s}

Say(kind, e, why, extra) ==
  PrintT(ToJson([kind |-> kind, property |-> "C27", deviation |-> extra, line |-> l, scn |-> info.scn,
                 origin |-> info.origin, task_order |-> info.task_order, idb_order |-> info.idb_order,
                 event |-> e.ev, why |-> why]))

TInit ==
  /\ B!Init
  /\ l = 1
  /\ info = [scn |-> 0, origin |-> "", task_order |-> "", idb_order |-> ""]
  /\ drift = FALSE
  /\ odocs = <<>>
  /\ ok = 0
  /\ ores = {}

Reset(e) ==
  /\ pg' = B!InitPg /\ idb' = B!InitIdb /\ app' = B!InitApp /\ closed' = FALSE /\ sched' = <<>>
  /\ info' = [scn |-> e.scn, origin |-> e.origin, task_order |-> e.task_order, idb_order |-> e.idb_order]
  /\ drift' = FALSE /\ odocs' = <<>> /\ ok' = 0 /\ ores' = {}

\* the model and the code disagree on a protocol step: report once, stop replaying this scenario
Drift(e, why) ==
  /\ ~drift => Say("DRIFT", e, why, "")
  /\ drift' = TRUE
  /\ UNCHANGED bvars

Add(e) ==
  LET S == {e.docs[i].id : i \in DOMAIN e.docs} IN
  /\ odocs' = Append(odocs, S)
  /\ UNCHANGED <<info, ok, ores>>
  /\ IF drift THEN UNCHANGED <<bvars, drift>>
     ELSE IF ~e.ok \/ app.busy \/ app.added \/ S = {} \/ ~(S \subseteq Ids)
       THEN Drift(e, "add call not expected by the model or it failed")
     ELSE B!CallAdd(S) /\ drift' = FALSE

\* a request as <<id, operation, path, the snapshot is the empty file>>
ReqSet(reqs) == {<<reqs[i].r, reqs[i].op, reqs[i].path, reqs[i].empty>> : i \in DOMAIN reqs}
EmptyData(d) == d.kind = "wal" /\ d.n = 0
NewModelReqs == {<<pg'.reqs[i].id, pg'.reqs[i].op, B!PathName(pg'.reqs[i].path),
                   pg'.reqs[i].op = "put" /\ EmptyData(pg'.reqs[i].data)>> :
                   i \in {j \in DOMAIN pg'.reqs : pg'.reqs[j].id > pg.nreq}}

NewRes(e) == IF e.res_k > 0 /\ e.res_ok THEN {e.res_k} ELSE {}

Commit(e) ==
  /\ ok' = ok + 1
  /\ ores' = ores \cup NewRes(e)
  /\ UNCHANGED <<info, odocs>>
  /\ IF drift THEN UNCHANGED <<bvars, drift>>
     ELSE IF ~app.added \/ app.busy \/ e.t # pg.ntask + 1
       THEN Drift(e, "commit call: the model expects another task id or no commit here")
     ELSE /\ B!CallCommit
          /\ IF ReqSet(e.reqs) = NewModelReqs /\ app'.resolved = app.resolved \cup NewRes(e)
               THEN drift' = FALSE
               ELSE /\ Say("DRIFT", e, "commit call: requests or promise state differ from the model", "")
                    /\ drift' = TRUE

Task(e) ==
  /\ ores' = ores \cup NewRes(e)
  /\ UNCHANGED <<info, odocs, ok>>
  /\ IF drift THEN UNCHANGED <<bvars, drift>>
     ELSE IF ~(e.t \in DOMAIN pg.tasks /\ e.t \in B!Range(pg.runq))
       THEN Drift(e, "the code ran a task the model does not have as ready")
     ELSE IF pg.tasks[e.t].kind # e.kind
       THEN Drift(e, "task kind differs from the model")
     ELSE /\ B!RunTask(e.t)
          /\ IF /\ ReqSet(e.reqs) = NewModelReqs
                /\ app'.resolved = app.resolved \cup NewRes(e)
                /\ e.finished = (e.t \notin DOMAIN pg'.tasks)
               THEN drift' = FALSE
               ELSE /\ Say("DRIFT", e, "task step: requests, completion or promise state differ from the model", "")
                    /\ drift' = TRUE

Idb(e) ==
  /\ UNCHANGED <<info, odocs, ok, ores>>
  /\ IF drift THEN UNCHANGED <<bvars, drift>>
     ELSE LET I == {i \in DOMAIN pg.reqs : /\ pg.reqs[i].id = e.r /\ pg.reqs[i].op = e.op
                                           /\ B!PathName(pg.reqs[i].path) = e.path}
          IN IF I = {} THEN Drift(e, "the code completed a request the model does not have")
             ELSE B!IdbComplete(CHOOSE i \in I : TRUE) /\ drift' = FALSE

Close(e) ==
  /\ UNCHANGED <<info, odocs>>
  /\ ok' = e.k
  /\ ores' = SeqToSet(e.resolved)
  /\ IF e.k # ok \/ SeqToSet(e.resolved) # ores
       THEN Say("TOOL", e, "close event disagrees with the calls and promises recorded before", "")
       ELSE TRUE
  /\ IF drift THEN UNCHANGED <<bvars, drift>>
     ELSE IF app.k # e.k \/ app.resolved # SeqToSet(e.resolved)
       THEN Drift(e, "commits called / resolved differ from the model at close")
     ELSE B!ClosePage /\ drift' = FALSE

ContentsO(j) ==
  [id \in Ids |->
     LET S == {c \in 1..j : c <= Len(odocs) /\ id \in odocs[c]}
     IN IF S = {} THEN 0 ELSE CHOOSE c \in S : \A d \in S : d <= c]

Reload(e) ==
  LET list == e.contents
      nodup == Cardinality({list[i].id : i \in DOMAIN list}) = Len(list)
      known == \A i \in DOMAIN list : list[i].id \in Ids
      oc == [id \in Ids |-> IF \E i \in DOMAIN list : list[i].id = id
                             THEN (CHOOSE x \in SeqToSet(list) : x.id = id).ver ELSE 0]
      open == e.opened /\ e.searched
      POpens == open
      PSome == open => (nodup /\ known /\ \E j \in 0..ok : oc = ContentsO(j))
      PRes == \A r \in ores : open /\ nodup /\ known /\ \E m \in r..ok : oc = ContentsO(m)
      failing == (IF POpens THEN <<>> ELSE <<"ReloadOpens">>)
                 \o (IF PSome THEN <<>> ELSE <<"ReloadIsSomeCommit">>)
                 \o (IF PRes THEN <<>> ELSE <<"ResolvedCommitPresent">>)
      modelKnows == ~drift /\ closed
      \* S27a as the as-built model has it: IndexedDB holds manifest j but not every file of segments 1..j
      s27a == modelKnows /\ ~B!Openable(idb) /\ ~open
  IN /\ UNCHANGED <<bvars, info, drift, odocs, ok, ores>>
     /\ IF failing = <<>>
          THEN IF modelKnows /\ ~B!Openable(idb)
                 THEN Say("DRIFT", e, "the model predicts a failing reload but the code reloaded fine", "")
                 ELSE TRUE
          ELSE IF s27a
                 THEN PrintT(ToJson([kind |-> "DEV", property |-> "C27", deviation |-> "S27a", line |-> l,
                        scn |-> info.scn, origin |-> info.origin, task_order |-> info.task_order,
                        idb_order |-> info.idb_order, event |-> e.ev, invariants |-> failing,
                        why |-> "the manifest snapshot of a commit reached IndexedDB before all segment files of that commit",
                        err |-> e.err, files |-> e.files, steps |-> sched]))
                 ELSE PrintT(ToJson([kind |-> "FAIL", property |-> "C27", deviation |-> "", line |-> l,
                        scn |-> info.scn, origin |-> info.origin, task_order |-> info.task_order,
                        idb_order |-> info.idb_order, event |-> e.ev, invariants |-> failing,
                        why |-> "reload after closing the page violates the property and the as-built model does not predict it",
                        err |-> e.err, files |-> e.files, steps |-> sched]))

Tool(e) ==
  /\ Say("TOOL", e, e.msg, "")
  /\ UNCHANGED <<bvars, info, drift, odocs, ok, ores>>

TNext ==
  /\ l <= Len(Rec)
  /\ l' = l + 1
  /\ LET e == Rec[l] IN
       CASE e.ev = "reset" -> Reset(e)
         [] e.ev = "add" -> Add(e)
         [] e.ev = "commit" -> Commit(e)
         [] e.ev = "task" -> Task(e)
         [] e.ev = "idb" -> Idb(e)
         [] e.ev = "close" -> Close(e)
         [] e.ev = "reload" -> Reload(e)
         [] e.ev = "tool" -> Tool(e)

TSpec == TInit /\ [][TNext]_vars

TraceAccepted ==
  LET d == TLCGet("stats").diameter IN
  IF d = Len(Rec) + 1
    THEN PrintT(ToJson([kind |-> "DONE", events |-> Len(Rec)]))
    ELSE /\ PrintT(ToJson([kind |-> "STUCK", at |-> d, events |-> Len(Rec)]))
         /\ FALSE
=============================================================================
