----------------------------- MODULE Trace_Conc -----------------------------
(***************************************************************************)
(* Trace validation for C05 (concurrent writer handles are serializable)  *)
(* and C06 (readers see one committed snapshot and never fail because of  *)
(* concurrent commits / compactions).                                     *)
(*                                                                         *)
(* The trace (svh conc) is the merged log of the stage-point hooks in     *)
(* their global sequence order (sequence numbers are taken while the      *)
(* writer mutex is held, so the order of `enter` events is the            *)
(* linearisation order of the writer calls) plus the harness's call       *)
(* records:                                                                *)
(*   enter / exit    a thread enters / leaves a writer critical section;  *)
(*                   `enter` carries the public call it belongs to        *)
(*   read_begin/end  a thread opens a fresh reader and searches match_all *)
(*   call_failed     a call returned an error or panicked                 *)
(*   final           contents after all threads joined, and after reopen  *)
(*                                                                         *)
(* Every `enter` is mapped onto the IndexCore action of its call; the     *)
(* model is the SERIAL execution in enter order.  Checks:                  *)
(*   C05  sections never overlap; no call fails; the final contents (in   *)
(*        memory and reopened from disk) equal the serial model's;        *)
(*   C06  every read succeeds and returns the committed contents of one   *)
(*        state that was current between its begin and its end.           *)
(***************************************************************************)
EXTENDS IndexCore, Json, IOUtils, TLC

Rec == ndJsonDeserialize(IOEnv.TRACE)

VARIABLES l, inside, before, seen, held, mute, info
\* held[t]: the states that were current while thread t opened the reader it still holds

vars == <<coreVars, l, inside, before, seen, held, mute, info>>

SeqToSet(s) == {s[i] : i \in DOMAIN s}
ToFn(list) == [id \in {list[i].id : i \in DOMAIN list} |->
                 (CHOOSE x \in SeqToSet(list) : x.id = id).ver]
NoDup(list) == Cardinality({list[i].id : i \in DOMAIN list}) = Len(list)

Say(kind, prop, e, why) ==
  PrintT(ToJson([kind |-> kind, property |-> prop, line |-> l, scn |-> info.scn,
                 event |-> e.ev, why |-> why]))

TInit ==
  /\ CoreInit
  /\ l = 1
  /\ inside = "none"
  /\ before = EmptyContents
  /\ seen = [t \in {} |-> {}]
  /\ held = [t \in {} |-> {}]
  /\ mute = {}
  /\ info = [scn |-> 0]

Reset(e) ==
  /\ committed' = ToFn(e.initial)
  /\ wal' = <<>>
  /\ pending' = [h \in {} |-> <<>>]
  /\ alive' = {}
  /\ inside' = "none"
  /\ before' = ToFn(e.initial)
  /\ seen' = [t \in {} |-> {}]
  /\ held' = [t \in {} |-> {}]
  /\ mute' = {}
  /\ info' = e

(* report the first failure per property and scenario *)
Flag(prop, e, why) ==
  /\ (prop \notin mute) => Say("FAIL", prop, e, why)
  /\ mute' = mute \cup {prop}

ApplyCall(t, c) ==
  CASE c.op = "new_writer" -> NewWriter(t)
    [] c.op = "add" -> IF t \in alive THEN Add(t, c.id, c.ver) ELSE UNCHANGED coreVars
    [] c.op = "delete" -> IF t \in alive THEN Delete(t, <<c.id>>) ELSE UNCHANGED coreVars
    [] c.op = "commit" -> IF t \in alive THEN Commit(t) ELSE UNCHANGED coreVars
    [] c.op = "rollback" -> IF t \in alive THEN Rollback(t) ELSE UNCHANGED coreVars
    [] OTHER -> Compact

Enter(e) ==
  /\ ApplyCall(e.t, e.call)
  /\ inside' = e.t
  /\ before' = committed           \* the call's effect becomes visible somewhere inside the section
  /\ seen' = [t \in DOMAIN seen |-> seen[t] \cup {committed'}]
  /\ UNCHANGED <<info, held>>
  /\ IF inside # "none"
       THEN Flag("C05", e, "two threads are inside writer critical sections at the same time")
       ELSE IF ~e.ok THEN Flag("C05", e, "a writer call failed") ELSE UNCHANGED mute

Exit(e) ==
  /\ inside' = "none"
  /\ before' = committed
  /\ UNCHANGED <<coreVars, seen, held, mute, info>>

ReadBegin(e) ==
  /\ seen' = [t \in (DOMAIN seen) \cup {e.t} |-> IF t = e.t THEN {committed, before} ELSE seen[t]]
  /\ UNCHANGED <<coreVars, inside, before, held, mute, info>>

ReadEnd(e) ==
  /\ UNCHANGED <<coreVars, inside, before, seen, held, info>>
  /\ IF ~e.ok THEN Flag("C06", e, "opening a reader or searching failed while writers were active")
     ELSE IF ~(NoDup(e.contents) /\ e.t \in DOMAIN seen /\ ToFn(e.contents) \in seen[e.t])
       THEN Flag("C06", e, "a reader returned contents that were never the committed state during its lifetime")
     ELSE UNCHANGED mute

(* A reader that is kept: the window of its open is [read_begin, open_end]; whatever is    *)
(* searched through it later - after further commits and compactions - must be the contents *)
(* of one state of that window ("a reader opened before a change keeps returning the        *)
(* pre-change results").                                                                     *)
OpenEnd(e) ==
  /\ UNCHANGED <<coreVars, inside, before, seen, info>>
  /\ held' = [t \in (DOMAIN held) \cup {e.t} |->
                IF t = e.t THEN (IF e.t \in DOMAIN seen THEN seen[e.t] ELSE {}) ELSE held[t]]
  /\ IF ~e.ok THEN Flag("C06", e, "opening a reader failed while writers were active") ELSE UNCHANGED mute

HeldRead(e) ==
  /\ UNCHANGED <<coreVars, inside, before, seen, held, info>>
  /\ IF ~e.ok THEN Flag("C06", e, "a search through a reader opened earlier failed")
     ELSE IF ~(NoDup(e.contents) /\ e.t \in DOMAIN held /\ ToFn(e.contents) \in held[e.t])
       THEN Flag("C06", e, "a reader opened before a change did not keep returning the contents of its snapshot")
     ELSE UNCHANGED mute

Final(e) ==
  /\ UNCHANGED <<coreVars, inside, before, seen, held, info>>
  /\ IF ~(e.ok /\ NoDup(e.contents) /\ ToFn(e.contents) = committed)
       THEN Flag("C05", e, "final contents differ from the serial execution in lock-acquisition order")
     ELSE IF ~(e.reopen_ok /\ NoDup(e.reopen) /\ ToFn(e.reopen) = committed)
       THEN Flag("C05", e, "the index reopened from disk differs from the serial execution")
     ELSE UNCHANGED mute

TNext ==
  /\ l <= Len(Rec)
  /\ l' = l + 1
  /\ LET e == Rec[l] IN
       CASE e.ev = "reset" -> Reset(e)
         [] e.ev = "enter" -> Enter(e)
         [] e.ev = "exit" -> Exit(e)
         [] e.ev = "read_begin" -> ReadBegin(e)
         [] e.ev = "read_end" -> ReadEnd(e)
         [] e.ev = "final" -> Final(e)
         [] e.ev = "open_end" -> OpenEnd(e)
         [] e.ev = "held_read" -> HeldRead(e)
         [] OTHER -> UNCHANGED <<coreVars, inside, before, seen, held, mute, info>>

TSpec == TInit /\ [][TNext]_vars

TraceAccepted ==
  LET d == TLCGet("stats").diameter IN
  IF d = Len(Rec) + 1
    THEN PrintT(ToJson([kind |-> "DONE", events |-> Len(Rec)]))
    ELSE /\ PrintT(ToJson([kind |-> "STUCK", at |-> d, events |-> Len(Rec)]))
         /\ FALSE
=============================================================================
