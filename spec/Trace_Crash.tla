---------------------------- MODULE Trace_Crash ----------------------------
(***************************************************************************)
(* Trace validation for C01 (commits atomic and durable across crashes)   *)
(* and C02 (queued operations survive crashes exactly once).              *)
(*                                                                         *)
(* The trace (svh crash) interleaves                                       *)
(*   call / ret   public API calls of one writer handle at a time,        *)
(*   fs           every primitive storage operation the traced-fs hook    *)
(*                recorded (create, open_append, write, set_len, fsync,   *)
(*                rename, fsync_dir, unlink),                              *)
(*   probe        the result of running the real recovery on one crash    *)
(*                image taken at that point of the log.                   *)
(*                                                                         *)
(* This module advances the file-system model of Storage.tla with the     *)
(* recorded operations, and for every probe checks                        *)
(*   (T) tool cross-check: the image descriptor is one Storage.tla allows *)
(*       here, the harness counted the same number of legal descriptors,  *)
(*       and the materialised file inventory (names, lengths) is the one  *)
(*       the model derives - otherwise a TOOL message (harness bug);      *)
(*   (C01) the image opens and its contents are the acknowledged contents *)
(*       or - while a commit is in flight - that commit's complete result;*)
(*   (C02) the recovered pending list is a prefix of the queue holding at *)
(*       least the synced operations (or, for a commit whose manifest is  *)
(*       already durable, re-applying what was recovered changes nothing),*)
(*       and committing it gives Fold(recovered, contents).               *)
(***************************************************************************)
EXTENDS IndexOps, Storage, Json, IOUtils, TLC

Rec == ndJsonDeserialize(IOEnv.TRACE)

VARIABLES l, fs, base, fids, acked, queue, synced, cur, skip, mute, info

vars == <<l, fs, base, fids, acked, queue, synced, cur, skip, mute, info>>

SeqToSet(s) == {s[i] : i \in DOMAIN s}

ToFn(list) == [id \in {list[i].id : i \in DOMAIN list} |->
                 (CHOOSE x \in SeqToSet(list) : x.id = id).ver]
NoDup(list) == Cardinality({list[i].id : i \in DOMAIN list}) = Len(list)

ToOps(list) == [i \in DOMAIN list |->
                  IF list[i].t = "add" THEN AddOp(list[i].id, list[i].ver) ELSE DelOp(list[i].id)]

NoCall == [op |-> "none"]

Say(kind, prop, e, why) ==
  PrintT(ToJson([kind |-> kind, property |-> prop, line |-> l, scn |-> info.scn,
                 round |-> info.round, event |-> e.ev, why |-> why,
                 call |-> cur.op]))

SatMul(a, b) == IF b = 0 THEN 0 ELSE IF a > 1000000 \div b THEN 1000000 ELSE
                (IF a * b > 1000000 THEN 1000000 ELSE a * b)

-----------------------------------------------------------------------------
TInit ==
  /\ l = 1
  /\ fs = EmptyFs
  /\ base = [x \in {} |-> 0]
  /\ fids = [x \in {} |-> 0]
  /\ acked = EmptyContents
  /\ queue = <<>>
  /\ synced = 0
  /\ cur = NoCall
  /\ skip = FALSE
  /\ mute = {}
  /\ info = [scn |-> 0, round |-> 0]

Reset(e) ==
  LET b == [n \in {e.base[i].name : i \in DOMAIN e.base} |->
              (CHOOSE x \in SeqToSet(e.base) : x.name = n).ino]
      f == [i \in {e.base[j].ino : j \in DOMAIN e.base} |->
              [slen |-> (CHOOSE x \in SeqToSet(e.base) : x.ino = i).len, ops |-> <<>>]]
  IN
  /\ fs' = [EmptyFs EXCEPT !.vdir = b, !.files = f]
  /\ base' = b
  /\ fids' = [x \in {} |-> 0]
  /\ acked' = ToFn(e.acked)
  /\ queue' = ToOps(e.queue)
  /\ synced' = Len(e.queue)          \* what was read back from disk is durable
  /\ cur' = NoCall
  /\ skip' = FALSE
  /\ mute' = {}
  /\ info' = e

-----------------------------------------------------------------------------
(* storage operations: same operators as Storage.tla, length-only content  *)

NewFile == [slen |-> 0, ops |-> <<>>]

OpenOrCreate(f, name) ==
  IF name \in DOMAIN f.vdir THEN f
  ELSE LET i == NewIno(f) IN
       [f EXCEPT !.vdir = Ext(@, name, i),
                 !.files = Ext(@, i, NewFile),
                 !.dirLog = Append(@, [k |-> "create", name |-> name, ino |-> i, to |-> ""]),
                 !.link = Ext(@, i, Len(f.dirLog) + 1)]

FsStep(e) ==
  CASE e.op = "create" ->
         /\ fs' = IF e.name \in DOMAIN fs.vdir
                    THEN [fs EXCEPT !.files[fs.vdir[e.name]].ops = Append(@, TOp(0))]
                    ELSE OpenOrCreate(fs, e.name)
         /\ fids' = Ext(fids, e.fid, fs'.vdir[e.name])
    [] e.op \in {"open_append", "open_rw"} ->
         /\ fs' = OpenOrCreate(fs, e.name)
         /\ fids' = Ext(fids, e.fid, fs'.vdir[e.name])
    [] e.op = "write" ->
         /\ fs' = [fs EXCEPT !.files[fids[e.fid]].ops = Append(@, WOpAt(e.off, e.len))]
         /\ UNCHANGED fids
    [] e.op = "set_len" ->
         /\ fs' = [fs EXCEPT !.files[fids[e.fid]].ops = Append(@, TOp(e.len))]
         /\ UNCHANGED fids
    [] e.op = "fsync" ->
         /\ LET i == fids[e.fid] IN
            fs' = [fs EXCEPT !.files[i] = [slen |-> LenAfterOps(@.slen, @.ops), ops |-> <<>>],
                             !.dur = Max(@, IF i \in DOMAIN fs.link THEN fs.link[i] ELSE 0)]
         /\ UNCHANGED fids
    [] e.op = "fsync_dir" -> fs' = FsFsyncDir(fs) /\ UNCHANGED fids
    [] e.op = "rename" -> fs' = FsRename(fs, e.name, e.to) /\ UNCHANGED fids
    [] e.op = "unlink" -> fs' = FsUnlink(fs, e.name) /\ UNCHANGED fids

IsWalSync(e) == e.op = "fsync" /\ e.name = "wal.log"

-----------------------------------------------------------------------------
(* probes                                                                  *)

Dirty == {i \in DOMAIN fs.files : fs.files[i].ops # <<>>}

RECURSIVE ProdChoices(_)
ProdChoices(S) ==
  IF S = {} THEN 1
  ELSE LET i == CHOOSE x \in S : TRUE IN SatMul(DataChoices(fs.files[i]), ProdChoices(S \ {i}))

DescLegal(e) ==
  /\ e.dir >= fs.dur /\ e.dir <= Len(fs.dirLog)
  /\ {e.files[i].ino : i \in DOMAIN e.files} = Dirty
  /\ Len(e.files) = Cardinality(Dirty)
  /\ \A i \in DOMAIN e.files :
        LegalData(fs.files[e.files[i].ino], e.files[i].keep, e.files[i].torn)
  /\ e.nimages = SatMul(DirChoices(fs), ProdChoices(Dirty))

KeepOf(e, ino) ==
  IF ino \in Dirty THEN (CHOOSE x \in SeqToSet(e.files) : x.ino = ino)
  ELSE [ino |-> ino, keep |-> 0, torn |-> 0]

InventoryOk(e) ==
  LET d == DirPrefix(fs, base, e.dir) IN
  /\ {e.inv[i].name : i \in DOMAIN e.inv} = DOMAIN d
  /\ Len(e.inv) = Cardinality(DOMAIN d)
  /\ \A i \in DOMAIN e.inv :
        LET ino == d[e.inv[i].name]
            f == fs.files[ino]
            c == KeepOf(e, ino)
        IN e.inv[i].len = LenPrefix(f.slen, f.ops, c.keep, c.torn)

InFlightResult == Fold(queue, acked)

C01ok(e) ==
  /\ e.opened
  /\ NoDup(e.contents)
  /\ \/ ToFn(e.contents) = acked
     \/ cur.op = "commit" /\ ToFn(e.contents) = InFlightResult

C02ok(e) ==
  LET c == ToFn(e.contents)
      p == ToOps(e.pending)
      a == ToFn(e.after)
      old == /\ c = acked
             /\ \/ \E k \in synced..Len(queue) : p = SubSeq(queue, 1, k)
                \/ cur.op = "rollback" /\ p = <<>>
      new == cur.op = "commit" /\ c = InFlightResult /\ a = c
  IN /\ e.after_ok
     /\ NoDup(e.after)
     /\ a = Fold(p, c)
     /\ old \/ new

(* A probe never changes the model state, so a failed probe does not stop   *)
(* validation: the first failure per property and round is reported, later *)
(* ones of the same property in that round are muted.                      *)
Probe(e) ==
  /\ UNCHANGED <<fs, base, fids, acked, queue, synced, cur, info>>
  /\ IF ~(DescLegal(e) /\ InventoryOk(e))
       THEN /\ Say("TOOL", "C01", e, "crash image descriptor or inventory disagrees with Storage.tla")
            /\ skip' = TRUE /\ UNCHANGED mute
       ELSE LET bad1 == ~C01ok(e)
                bad2 == C01ok(e) /\ ~C02ok(e)
            IN /\ (bad1 /\ "C01" \notin mute) =>
                      Say("FAIL", "C01", e, IF e.opened THEN "recovered contents are neither the acknowledged nor the in-flight commit's" ELSE "crash image does not open")
               /\ (bad2 /\ "C02" \notin mute) =>
                      Say("FAIL", "C02", e, "recovered queue / contents after committing it differ from the model")
               /\ mute' = mute \cup (IF bad1 THEN {"C01"} ELSE {}) \cup (IF bad2 THEN {"C02"} ELSE {})
               /\ UNCHANGED skip

-----------------------------------------------------------------------------
Call(e) ==
  /\ cur' = e
  /\ queue' = CASE e.op = "add" -> Append(queue, AddOp(e.id, e.ver))
                [] e.op = "delete" -> queue \o DelOps(e.ids)
                [] OTHER -> queue
  /\ UNCHANGED <<fs, base, fids, acked, synced, skip, mute, info>>

Ret(e) ==
  /\ cur' = NoCall
  /\ acked' = IF cur.op = "commit" /\ e.ok THEN Fold(queue, acked) ELSE acked
  /\ queue' = IF (cur.op = "commit" /\ e.ok) \/ cur.op = "rollback" THEN <<>> ELSE queue
  /\ synced' = IF (cur.op = "commit" /\ e.ok) \/ cur.op = "rollback" THEN 0
               ELSE IF cur.op = "drop" THEN Len(queue) ELSE synced
  /\ UNCHANGED <<fs, base, fids, mute, info>>
  /\ IF e.ok /\ NoDup(e.obs) /\ ToFn(e.obs) = acked'
       THEN skip' = FALSE
       ELSE Say("FAIL", "C01", e, "call failed or contents after the call differ from the model") /\ skip' = TRUE

Fs(e) ==
  /\ FsStep(e)
  /\ synced' = IF IsWalSync(e) THEN Len(queue) ELSE synced
  /\ UNCHANGED <<base, acked, queue, cur, skip, mute, info>>

TNext ==
  /\ l <= Len(Rec)
  /\ l' = l + 1
  /\ LET e == Rec[l] IN
       IF e.ev = "reset" THEN Reset(e)
       ELSE IF skip THEN UNCHANGED <<fs, base, fids, acked, queue, synced, cur, skip, mute, info>>
       ELSE CASE e.ev = "call" -> Call(e)
              [] e.ev = "ret" -> Ret(e)
              [] e.ev = "fs" -> Fs(e)
              [] e.ev = "probe" -> Probe(e)

TSpec == TInit /\ [][TNext]_vars

TraceAccepted ==
  LET d == TLCGet("stats").diameter IN
  IF d = Len(Rec) + 1
    THEN PrintT(ToJson([kind |-> "DONE", events |-> Len(Rec)]))
    ELSE /\ PrintT(ToJson([kind |-> "STUCK", at |-> d, events |-> Len(Rec)]))
         /\ FALSE
=============================================================================
