---------------------------- MODULE Trace_Extras ----------------------------
(***************************************************************************)
(* Trace validation of the request features layered on the ranked list     *)
(* (svh extras): collapse + inner hits (C18, Collapse.tla), rescoring      *)
(* (C19, Rescore.tla), highlighting (C21, Highlight.tla) and completion    *)
(* suggestions (C22, Suggest.tla).                                         *)
(*                                                                         *)
(* Same protocol as Trace_Search: reset, dict, corpus, then any number of  *)
(* `search` events carrying the abstract request, the check kind and the   *)
(* observed responses.  Verdicts are non-blocking (FAIL / DEV lines).      *)
(***************************************************************************)
EXTENDS Collapse, Rescore, Highlight, Suggest, Json, IOUtils

Rec == ndJsonDeserialize(IOEnv.TRACE)

VARIABLES l, D, docs, info

vars == <<l, D, docs, info>>

TInit ==
  /\ l = 1
  /\ D = [x \in {} |-> 0]
  /\ docs = {}
  /\ info = [scn |-> 0]

LoadDict(e) ==
  D' = [s \in {e.entries[i].s : i \in DOMAIN e.entries} |->
          LET x == CHOOSE y \in SeqToSet(e.entries) : y.s = s IN
          [cp |-> x.cp, lc |-> x.lc, alc |-> x.alc]]

(* C21: every hit of the event is judged by Highlight.tla HitVerdict; one    *)
(* message per event (a FAIL wins over a DEV).                              *)
CheckHighlight(e) ==
  LET vs == [i \in DOMAIN e.hits |-> HitVerdict(e.hits[i], e.fsize, e.nfrag)]
      fails == {i \in DOMAIN vs : vs[i].v = "FAIL"}
      devs == {i \in DOMAIN vs : vs[i].v = "DEV"}
  IN IF ~e.ok THEN Tell("FAIL", e.prop, l, info.scn, e, "search returned an error", "")
     ELSE IF fails # {} THEN Tell("FAIL", e.prop, l, info.scn, e, vs[CHOOSE i \in fails : TRUE].why, "")
     ELSE IF devs # {} THEN Tell("DEV", e.prop, l, info.scn, e, vs[CHOOSE i \in devs : TRUE].why, "S21a")
     ELSE TRUE

Judge(e) ==
  CASE e.check = "collapse" -> CheckCollapse(D, docs, e, l, info.scn)
    [] e.check = "rescore" -> CheckRescore(D, docs, e, l, info.scn)
    [] e.check = "highlight" -> CheckHighlight(e)
    [] e.check = "suggest" -> CheckSuggest(D, docs, e, l, info.scn)
    [] OTHER -> Tell("TOOL", e.prop, l, info.scn, e, "unknown check kind", "")

TNext ==
  /\ l <= Len(Rec)
  /\ l' = l + 1
  /\ LET e == Rec[l] IN
       CASE e.ev = "reset" -> info' = e /\ D' = [x \in {} |-> 0] /\ docs' = {}
         [] e.ev = "dict" -> LoadDict(e) /\ UNCHANGED <<docs, info>>
         [] e.ev = "corpus" -> docs' = SeqToSet(e.docs) /\ UNCHANGED <<D, info>>
         [] e.ev = "search" -> Judge(e) /\ UNCHANGED <<D, docs, info>>

TSpec == TInit /\ [][TNext]_vars

TraceAccepted ==
  LET d == TLCGet("stats").diameter IN
  IF d = Len(Rec) + 1
    THEN PrintT(ToJson([kind |-> "DONE", events |-> Len(Rec)]))
    ELSE /\ PrintT(ToJson([kind |-> "STUCK", at |-> d, events |-> Len(Rec)]))
         /\ FALSE
=============================================================================
