---------------------------- MODULE Trace_Fault ----------------------------
(***************************************************************************)
(* Trace validation for C03: storage errors leave the committed state     *)
(* unchanged or fully applied.                                            *)
(*                                                                         *)
(* The trace (svh faults) is a concatenation of runs, each introduced by  *)
(* a `reset` (committed contents built by a fault-free prefix, the armed  *)
(* fault plan: <= 2 storage-trait call numbers, each failing before or    *)
(* after its effect).  A run is a sequence of call / ret pairs of ONE     *)
(* writer handle at a time.  Every `ret` carries                          *)
(*   ok / outcome      Ok, Err or panic                                   *)
(*   hits              the faults that fired inside this call             *)
(*                     (trait-call name, path class, before/after)        *)
(*   reader            contents (id -> version) seen by a new reader on   *)
(*                     the same Index                                     *)
(*   reopen, dangling  contents after Index::open_with_storage on the     *)
(*                     same storage object (faults off) and the segment   *)
(*                     files the reopened manifest names but the storage  *)
(*                     does not hold                                      *)
(*   wal               operations a new writer would recover from wal.log *)
(* The run ends with a fault-free commit (final = TRUE), on a new handle  *)
(* when none is alive.                                                    *)
(*                                                                         *)
(* Ghost state, advanced with the operators of IndexOps.tla:              *)
(*   acked   contents after the last call that reported success           *)
(*   queues  the SET of operation lists that may legitimately be queued.  *)
(*           It is a set because the property does not say whether the    *)
(*           operations of an add/delete that returned Err are queued     *)
(*           (the record may or may not have reached the log before the   *)
(*           failure): any prefix of the failed call's operations may be  *)
(*           queued.  Likewise a rollback that returned Err may or may    *)
(*           not have discarded the queue (the caller asked to discard it,*)
(*           so no acknowledged work is lost either way).                 *)
(*                                                                         *)
(* FailAtomic, judged at every ret:                                       *)
(*   Err  => reader contents = reopened contents = acked, and the queue   *)
(*           is retained: wal \in queues now, and a later fault-free      *)
(*           commit returns Ok with contents Fold(q, acked), q \in queues *)
(*           (an Err of a call in which no storage operation failed is    *)
(*           itself a failure: "still retryable" means the retry works);  *)
(*   Ok   => effects fully applied: add/delete - the operations are       *)
(*           queued (they are in every member of queues from now on);     *)
(*           commit - reader = reopen = Fold(q, acked) for a q \in queues *)
(*           and the log is empty; rollback - queue and log empty;        *)
(*           new_writer/drop/compact - contents unchanged.                *)
(* NoDangling, judged at every ret (a run has <= 2 failures): the index   *)
(*   reopens, a reader on it works, every referenced segment file exists. *)
(*                                                                         *)
(* What is NOT demanded.  Sentence 1 of C03 ("when a storage operation    *)
(* fails ... unchanged or fully applied") is judged strictly for every    *)
(* call in which at most ONE storage operation failed (also when an       *)
(* earlier call of the run already suffered a failure).  When a SECOND    *)
(* failure hits the undo path of the same commit (restoring the manifest  *)
(* or cutting the log back fails too) no roll-back protocol can restore   *)
(* the old on-disk state; for such a call only sentence 3 is demanded     *)
(* strictly (NoDangling) together with: no panic, the in-memory contents  *)
(* are still acked, and the reopened contents are acked or the complete   *)
(* result of the commit.  These are reported as NOTE lines (informational)*)
(* and the run is not followed further.                                   *)
(*                                                                         *)
(* Known findings (deviation tried only after the ideal failed):          *)
(*   S03b  commit returns Err because truncating the log failed AFTER the *)
(*         new manifest was stored and published: contents are the        *)
(*         commit's complete result although the call reported failure.   *)
(*   S03a  (double fault) restoring the old manifest failed, yet the new  *)
(*         segment files were deleted: the on-disk manifest names files   *)
(*         that do not exist.                                             *)
(* Verdicts are non-blocking: FAIL / DEV(S03a) / NOTE stop the judgement  *)
(* of that run only; validation continues at the next reset.              *)
(***************************************************************************)
EXTENDS IndexOps, Json, IOUtils, TLC

Rec == ndJsonDeserialize(IOEnv.TRACE)

VARIABLES l, acked, queues, cur, nf, skip, info, stats

vars == <<l, acked, queues, cur, nf, skip, info, stats>>

SeqToSet(s) == {s[i] : i \in DOMAIN s}

ToFn(list) == [id \in {list[i].id : i \in DOMAIN list} |->
                 (CHOOSE x \in SeqToSet(list) : x.id = id).ver]
NoDup(list) == Cardinality({list[i].id : i \in DOMAIN list}) = Len(list)

ToOps(list) == [i \in DOMAIN list |->
                  IF list[i].t = "add" THEN AddOp(list[i].id, list[i].ver) ELSE DelOp(list[i].id)]

Prefixes(s) == {SubSeq(s, 1, k) : k \in 0..Len(s)}

NoCall == [op |-> "none", id |-> "", ver |-> 0, ids |-> <<>>, final |-> FALSE]

CallOps(c) == IF c.op = "add" THEN <<AddOp(c.id, c.ver)>>
              ELSE IF c.op = "delete" THEN DelOps(c.ids) ELSE <<>>

Say(kind, e, why, dev) ==
  PrintT(ToJson([kind |-> kind, property |-> "C03", deviation |-> dev, line |-> l,
                 scn |-> info.scn, run |-> info.run, mult |-> info.mult,
                 storage |-> info.storage, faults |-> info.faults,
                 call |-> cur.op, ok |-> e.ok, hits |-> e.hits, why |-> why]))

-----------------------------------------------------------------------------
TInit ==
  /\ l = 1
  /\ acked = EmptyContents
  /\ queues = {<<>>}
  /\ cur = NoCall
  /\ nf = 0
  /\ skip = FALSE
  /\ info = [scn |-> 0, run |-> 0, mult |-> 0, storage |-> "", faults |-> <<>>, nfaults |-> 0]
  /\ stats = [runs |-> 0, rets |-> 0, errs |-> 0, wruns |-> 0]

Reset(e) ==
  /\ acked' = ToFn(e.acked)
  /\ queues' = {<<>>}
  /\ cur' = NoCall
  /\ nf' = 0
  /\ skip' = FALSE
  /\ info' = e
  /\ stats' = [stats EXCEPT !.runs = @ + 1, !.wruns = @ + e.mult]

Call(e) ==
  /\ cur' = e
  /\ UNCHANGED <<acked, queues, nf, skip, info, stats>>

-----------------------------------------------------------------------------
(* observations                                                            *)
ReaderIs(e, c) == e.reader_ok /\ NoDup(e.reader) /\ ToFn(e.reader) = c
ReopenIs(e, c) == e.reopen_ok /\ NoDup(e.reopen) /\ ToFn(e.reopen) = c
BothAre(e, c) == ReaderIs(e, c) /\ ReopenIs(e, c)
WalIn(e, Q) == e.wal_ok /\ ToOps(e.wal) \in Q

(* NoDangling: the on-disk index reopens, reads, and names only existing files *)
Sound(e) == e.reopen_ok /\ e.dangling = <<>>

(* the queue(s) the ideal allows after this call, and whether the contents *)
(* must be unchanged (same) or the result of committing a queue           *)
Expect(e) ==
  LET ops == CallOps(cur) IN
  CASE cur.op \in {"add", "delete"} ->
         IF e.ok THEN [same |-> TRUE, queues |-> {q \o ops : q \in queues}]
         ELSE [same |-> TRUE, queues |-> {q \o p : q \in queues, p \in Prefixes(ops)}]
    [] cur.op = "commit" ->
         (* a handle whose list is empty returns Ok without touching the log: *)
         (* operations that are only *possibly* queued (failed add) stay so  *)
         IF e.ok THEN [same |-> FALSE,
                       queues |-> {<<>>} \cup (IF <<>> \in queues /\ ReaderIs(e, acked)
                                                THEN queues ELSE {})]
         ELSE [same |-> TRUE, queues |-> queues]
    [] cur.op = "rollback" ->
         IF e.ok THEN [same |-> TRUE, queues |-> {<<>>}]
         ELSE [same |-> TRUE, queues |-> queues \cup {<<>>}]
    [] OTHER -> [same |-> TRUE, queues |-> queues]

Committed(e) == {q \in queues : BothAre(e, Fold(q, acked))}

(* first reason why the ideal does not explain the observation ("" = it does) *)
Why(e) ==
  LET X == Expect(e) IN
  IF e.outcome = "panic" THEN "the call panicked"
  ELSE IF ~e.ok /\ e.hits = <<>> THEN "the call returned Err although no storage operation failed in it (not retryable)"
  ELSE IF ~e.reader_ok THEN "a new reader on the same Index fails"
  ELSE IF ~e.reopen_ok THEN "NoDangling: the index does not reopen / read from the same storage"
  ELSE IF e.dangling # <<>> THEN "NoDangling: the on-disk manifest refers to missing files"
  ELSE IF X.same /\ ~ReaderIs(e, acked) THEN
         (IF e.ok THEN "contents seen by a new reader changed by a call that does not commit"
          ELSE "FailAtomic: the call returned Err but a new reader sees changed contents")
  ELSE IF X.same /\ ~ReopenIs(e, acked) THEN
         (IF e.ok THEN "reopened contents changed by a call that does not commit"
          ELSE "FailAtomic: the call returned Err but the reopened index has changed contents")
  ELSE IF ~X.same /\ Committed(e) = {} THEN "FailAtomic: commit returned Ok but reader/reopened contents are not Fold(queue, acked)"
  ELSE IF ~WalIn(e, X.queues) THEN
         (IF e.ok THEN "the log still holds operations after a successful commit/rollback, or lost queued ones"
          ELSE "FailAtomic: queued operations are not retryable from the log after the failed call")
  ELSE ""

(* S03b: log truncation failed after publication, commit reports Err      *)
IsS03b(e) ==
  /\ cur.op = "commit" /\ ~e.ok /\ e.outcome = "err"
  /\ Len(e.hits) = 1
  /\ e.hits[1].cls = "wal"
  /\ e.hits[1].name \in {"file.set_len", "file.seek", "file.sync_all"}
  /\ Sound(e)
  /\ \E q \in queues : BothAre(e, Fold(q, acked))
  /\ WalIn(e, {<<>>})               \* the log was cut, or holds the commit marker

(* S03a: second failure = re-storing the old manifest; new segment files   *)
(* deleted nevertheless                                                    *)
IsS03a(e) ==
  /\ cur.op = "commit" /\ ~e.ok /\ e.outcome = "err"
  /\ Len(e.hits) = 2
  /\ e.hits[2].name = "atomic_write" /\ e.hits[2].cls = "manifest"
  /\ ReaderIs(e, acked)
  /\ ~Sound(e)
  /\ \/ e.dangling # <<>>
     \/ ~e.reopen_ok

(* second failure inside the undo path of one commit: see header          *)
IsUndoFailure(e) ==
  /\ cur.op = "commit" /\ ~e.ok /\ e.outcome = "err"
  /\ Len(e.hits) = 2
  /\ Sound(e)
  /\ ReaderIs(e, acked)
  /\ \/ ReopenIs(e, acked)
     \/ \E q \in queues : ReopenIs(e, Fold(q, acked))
  /\ e.wal_ok

Ret(e) ==
  LET X == Expect(e)
      why == Why(e)
      h == Len(e.hits)
  IN
  /\ cur' = NoCall
  /\ nf' = nf + h
  /\ stats' = [stats EXCEPT !.rets = @ + 1, !.errs = @ + (IF e.ok THEN 0 ELSE 1)]
  /\ UNCHANGED info
  /\ IF nf + h > info.nfaults
       THEN /\ Say("TOOL", e, "more faults fired than were armed", "")
            /\ skip' = TRUE /\ UNCHANGED <<acked, queues>>
     ELSE IF why = ""
       THEN /\ acked' = IF X.same THEN acked ELSE ToFn(e.reader)
            /\ queues' = X.queues
            /\ skip' = FALSE
     ELSE IF IsS03b(e)
       THEN /\ Say("DEV", e, "commit returned Err (log truncation failed after publication) although its effects are fully applied", "S03b")
            /\ acked' = ToFn(e.reader)
            /\ queues' = queues \cup {<<>>}     \* the handle keeps its list; re-applying it is idempotent
            /\ skip' = FALSE
     ELSE IF IsS03a(e)
       THEN /\ Say("DEV", e, "restoring the old manifest failed but the new segment files were deleted: " \o why, "S03a")
            /\ skip' = TRUE /\ UNCHANGED <<acked, queues>>
     ELSE IF IsUndoFailure(e)
       THEN /\ Say("NOTE", e, "second failure in the undo path of the same commit: " \o why, "")
            /\ skip' = TRUE /\ UNCHANGED <<acked, queues>>
     ELSE /\ Say("FAIL", e, why, "")
          /\ skip' = TRUE /\ UNCHANGED <<acked, queues>>

TNext ==
  /\ l <= Len(Rec)
  /\ l' = l + 1
  /\ LET e == Rec[l] IN
       IF e.ev = "reset" THEN Reset(e)
       ELSE IF skip THEN UNCHANGED <<acked, queues, cur, nf, skip, info, stats>>
       ELSE CASE e.ev = "call" -> Call(e)
              [] e.ev = "ret" -> Ret(e)
  /\ (l = Len(Rec)) =>
        PrintT(ToJson([kind |-> "STATS", runs |-> stats'.runs, weighted_runs |-> stats'.wruns,
                       rets_judged |-> stats'.rets, err_rets_judged |-> stats'.errs]))

TSpec == TInit /\ [][TNext]_vars

TraceAccepted ==
  LET d == TLCGet("stats").diameter IN
  IF d = Len(Rec) + 1
    THEN PrintT(ToJson([kind |-> "DONE", events |-> Len(Rec)]))
    ELSE /\ PrintT(ToJson([kind |-> "STUCK", at |-> d, events |-> Len(Rec)]))
         /\ FALSE
=============================================================================
