----------------------------- MODULE Trace_Ffi -----------------------------
(***************************************************************************)
(* Trace validation for C26: every record `svh ffi` logged from a real    *)
(* call of searchlite_search is judged by the postcondition of            *)
(* FfiContract.tla - the same predicate that FfiBuf.tla's byte-write      *)
(* model satisfies in every final state (MC_FfiBuf.cfg).                  *)
(*                                                                         *)
(* Events                                                                  *)
(*   reset  a new index / scenario                                        *)
(*   case   one argument tuple: outcome of the equivalent Rust API call   *)
(*          (`lib` = ok | err | panic), the full response obtained through*)
(*          a large buffer (`fullLen`, `full_eq_lib`)                     *)
(*   call   one call with a placed buffer of `cap` bytes: the measured    *)
(*          observation (see FfiContract)                                 *)
(*   aux    null-pointer handling of the other entry points               *)
(*                                                                         *)
(* Verdicts are per record and non-blocking.  Deviation S26a: a panic of  *)
(* the library inside the call unwinds into the extern "C" frame and      *)
(* aborts the caller's process (SIGABRT) instead of returning 0.          *)
(***************************************************************************)
EXTENDS FfiContract, Sequences, Json, IOUtils, TLC

Rec == ndJsonDeserialize(IOEnv.TRACE)

VARIABLES l,     \* position in Rec
          cur,   \* the current case record
          stats  \* counters reported by the DONE line

vars == <<l, cur, stats>>

SIGABRT == 6

Say(kind, e, extra) ==
  PrintT(ToJson([kind |-> kind, property |-> "C26", line |-> l, event |-> e.ev] @@ extra))

(* Only the abort-on-panic deviation explains the observation. *)
IsS26a(crashed, signal, lib) == crashed /\ signal = SIGABRT /\ lib = "panic"

Bump(f) == stats' = [stats EXCEPT ![f] = @ + 1]

JudgeCase(e) ==
  /\ cur' = e
  /\ IF e.big_crashed
       THEN IF IsS26a(TRUE, e.big_signal, e.lib)
              THEN /\ Say("DEV", e, [deviation |-> "S26a", case |-> e.case, query |-> e.query,
                                     cursor |-> e.cursor, aggs |-> e.aggs, note |-> e.big_note])
                   /\ Bump("dev")
              ELSE /\ Say("FAIL", e, [case |-> e.case, query |-> e.query, cursor |-> e.cursor,
                                      aggs |-> e.aggs, signal |-> e.big_signal,
                                      why |-> "callee crashed instead of returning a status"])
                   /\ Bump("fail")
     ELSE IF e.lib = "ok" /\ ~e.full_eq_lib
       THEN /\ Say("FAIL", e, [case |-> e.case, query |-> e.query, fullLen |-> e.fullLen,
                               lib_len |-> e.lib_len,
                               why |-> "response through a large buffer is not the JSON of the Rust API's result"])
            /\ Bump("fail")
     ELSE IF e.lib # "ok" /\ e.fullLen # 0
       THEN /\ Say("FAIL", e, [case |-> e.case, query |-> e.query, fullLen |-> e.fullLen,
                               why |-> "invalid argument must return 0"])
            /\ Bump("fail")
     ELSE Bump("cases")

JudgeCall(e) ==
  /\ UNCHANGED cur
  /\ IF e.lib # "na" /\ (e.case # cur.case \/ e.fullLen # cur.fullLen \/ e.mustFail # cur.mustFail)
       THEN /\ Say("TOOL", e, [why |-> "call record does not belong to the current case"])
            /\ Bump("fail")
     ELSE LET why == PostWhy(e) IN
       IF why = "" THEN
            Bump(IF e.mustFail THEN "rejected"
                 ELSE IF e.bufNull \/ e.cap = 0 THEN "noroom"
                 ELSE IF e.cap <= e.fullLen THEN "truncated" ELSE "complete")
       ELSE IF IsS26a(e.crashed, e.signal, e.lib) THEN
            /\ Say("DEV", e, [deviation |-> "S26a", case |-> e.case, mode |-> e.mode,
                              cap |-> e.cap, note |-> e.note])
            /\ Bump("dev")
       ELSE /\ Say("FAIL", e, [case |-> e.case, mode |-> e.mode, cap |-> e.cap,
                               fullLen |-> e.fullLen, ret |-> e.ret, nulAt |-> e.nulAt,
                               signal |-> e.signal, why |-> why, note |-> e.note])
            /\ Bump("fail")

JudgeAux(e) ==
  /\ UNCHANGED cur
  /\ IF e.crashed \/ e.status > 0
       THEN /\ Say("FAIL", e, [fn |-> e.fn, status |-> e.status, signal |-> e.signal,
                               why |-> "null argument must yield a zero or negative status"])
            /\ Bump("fail")
       ELSE Bump("aux")

TInit ==
  /\ l = 1
  /\ cur = [case |-> -1, fullLen |-> -1, mustFail |-> FALSE]
  /\ stats = [cases |-> 0, rejected |-> 0, noroom |-> 0, truncated |-> 0, complete |-> 0,
              aux |-> 0, dev |-> 0, fail |-> 0]

TNext ==
  /\ l <= Len(Rec)
  /\ l' = l + 1
  /\ LET e == Rec[l] IN
       CASE e.ev = "reset" -> UNCHANGED <<cur, stats>>
         [] e.ev = "case" -> JudgeCase(e)
         [] e.ev = "call" -> JudgeCall(e)
         [] e.ev = "aux" -> JudgeAux(e)
  /\ l = Len(Rec) => PrintT(ToJson([kind |-> "STATS"] @@ stats'))

TSpec == TInit /\ [][TNext]_vars

TraceAccepted ==
  LET d == TLCGet("stats").diameter IN
  IF d = Len(Rec) + 1
    THEN PrintT(ToJson([kind |-> "DONE", events |-> Len(Rec)]))
    ELSE /\ PrintT(ToJson([kind |-> "STUCK", at |-> d, events |-> Len(Rec)]))
         /\ FALSE
=============================================================================
