-------------------------- MODULE Trace_Frontends --------------------------
(***************************************************************************)
(* Trace validation for C25.  `svh frontends` executes one history five    *)
(* ways (lib, libffi, cli, http, ffi - see Frontends.tla) and logs one     *)
(* `step` event per operation with every execution's observation.          *)
(*                                                                         *)
(* For every step and every execution that ran it:                         *)
(*  (1) the call result equals Frontends!ExpectedOk;                       *)
(*  (2) the execution's model state advances by Frontends!Effect, i.e. by  *)
(*      IndexOps.Fold over the operation sequence the invocation denotes;  *)
(*      contents observed through the front end's own search after         *)
(*      init/commit/compact must equal the model's committed contents;     *)
(*  (3) a search's projected result equals the projection of the reference *)
(*      execution (lib for cli/http, libffi for ffi), field by field;      *)
(*  (4) the arguments the driver passed denote the logged request          *)
(*      (CliRequest / FfiRequest) - a mismatch is a TOOL message.          *)
(*                                                                         *)
(* Verdicts are non-blocking: a FAIL names the front end and the first     *)
(* differing field and mutes that front end until the next `reset`.        *)
(*                                                                         *)
(* Deviation S25a (CLI, HTTP): ids with surrounding white space are        *)
(* accepted by add everywhere, but `searchlite delete` trims each id line  *)
(* (deleting a different id) and POST /delete refuses such an id.          *)
(*                                                                         *)
(* Deviation S23a (HTTP): a rejected /add or /bulk calls writer.rollback() *)
(* and so drops every operation queued (and acknowledged) before it.  The  *)
(* model keeps, next to the ideal state, the state this produces; when     *)
(* only that explains the contents seen after the next commit a DEV line   *)
(* is printed and the execution - now legitimately different from its      *)
(* reference - is muted for the rest of the history.                       *)
(***************************************************************************)
EXTENDS Frontends, Sequences, FiniteSets, Json, IOUtils

Rec == ndJsonDeserialize(IOEnv.TRACE)

VARIABLES l,      \* position in Rec
          st,     \* execution -> [committed, wal]   (ideal)
          alt,    \* execution -> [committed, wal]   (with deviations)
          muted,  \* executions not judged until the next reset
          info,   \* current reset record
          stats

vars == <<l, st, alt, muted, info, stats>>

Judged == {"cli", "http", "ffi", "lib", "libffi"}

Say(kind, e, extra) ==
  PrintT(ToJson([kind |-> kind, property |-> "C25", line |-> l, scn |-> e.scn, step |-> e.step,
                 op |-> e.op.kind] @@ extra))

(* State after a rejected add in the HTTP service as built: the log is    *)
(* rolled back.                                                            *)
DevEffect(fe, op, s) ==
  IF fe = "http" /\ op.kind \in {"add", "update"} /\ ~AllValid(op.docs)
    THEN [s EXCEPT !.wal = <<>>]
  ELSE IF fe = "cli" /\ op.kind = "delete"
    THEN [s EXCEPT !.wal = @ \o DelOps(TrimmedIdsOf(op))]   \* S25a: the id lines are trimmed
  ELSE Effect(fe, op, s)

(* S25a, HTTP side: /delete refuses an id with surrounding white space     *)
(* (400) although /add accepted the document and the Rust API deletes it.  *)
HttpRefusesPadded(fe, op, o) ==
  fe = "http" /\ op.kind = "delete" /\ AnyPadded(op) /\ ~o.ok

DevId(fe, op) == IF op.kind = "delete" \/ fe = "cli" THEN "S25a" ELSE "S23a"

(* Judgement of one execution at one step: a record                        *)
(*   [st, alt, verdict, field, why]  verdict in ok | fail | dev | skip     *)
StepFe(fe, e) ==
  LET op == e.op
      o == e.obs[fe]
      ref == e.obs[Ref(fe)]
      ns == Effect(fe, op, st[fe])
      na == DevEffect(fe, op, alt[fe])
      keep == [st |-> st[fe], alt |-> alt[fe], verdict |-> "skip", field |-> "", why |-> ""]
  IN
  IF ~o.ran THEN keep
  ELSE IF fe \in muted THEN keep
  ELSE IF HttpRefusesPadded(fe, op, o) THEN
         [keep EXCEPT !.verdict = "dev", !.field = "ok",
                      !.why = "delete of an id with surrounding white space is refused although the Rust API deletes it"]
  ELSE IF o.ok # ExpectedOk(fe, op, ref.ok) THEN
         [keep EXCEPT !.verdict = "fail", !.field = "ok",
                      !.why = IF o.ok THEN "call succeeded where the Rust API fails"
                              ELSE "call failed where the Rust API succeeds"]
  ELSE IF ~o.ok THEN
         \* a (correctly) failing call: only the deviation state may move
         [keep EXCEPT !.alt = na, !.verdict = "ok"]
  ELSE IF o.has_contents THEN
         LET seen == ObsContents(o.contents) IN
         IF ~OneCopyPerId(o.contents) THEN
              [keep EXCEPT !.verdict = "fail", !.field = "contents", !.why = "an id is returned twice"]
         ELSE IF seen = ns.committed THEN
              \* the ideal explains it; the deviation state survives only while it explains it too
              [st |-> ns, alt |-> IF seen = na.committed THEN na ELSE ns,
               verdict |-> "ok", field |-> "", why |-> ""]
         ELSE IF seen = na.committed THEN
              [st |-> na, alt |-> na, verdict |-> "dev", field |-> "contents",
               why |-> IF fe = "cli"
                         THEN "contents equal the fold with the trimmed ids deleted instead of the ids given"
                         ELSE "contents equal the fold without the operations queued before a rejected add"]
         ELSE [keep EXCEPT !.verdict = "fail", !.field = "contents",
                           !.why = "contents differ from the fold of the committed operations"]
  ELSE IF op.kind = "search" /\ fe # Ref(fe) /\ ref.ran /\ Ref(fe) \notin muted THEN
         LET d == FirstDiff(o.res, ref.res) IN
         IF d = "" THEN [st |-> ns, alt |-> na, verdict |-> "ok", field |-> "", why |-> ""]
         ELSE [st |-> ns, alt |-> na, verdict |-> "fail", field |-> d,
               why |-> "search result differs from the Rust API's"]
  ELSE [st |-> ns, alt |-> na, verdict |-> "ok", field |-> "", why |-> ""]

(* The driver's materialisation of the request agrees with Frontends.tla. *)
MappingWhy(op, obs) ==
  IF op.kind # "search" THEN ""
  ELSE IF op.cli.form = "flags" /\ ~CliFlagExpressible(op.req)
    THEN "flags form used for a request the flags cannot express"
  ELSE IF op.cli.form = "flags" /\ CliRequest(op.cli.flags) # op.req
    THEN "CLI flags do not denote the logged request"
  ELSE IF op.ffi.expressible # FfiExpressible(op.req)
    THEN "FfiExpressible disagrees with the driver"
  ELSE IF op.ffi.expressible /\ FfiRequest(op.ffi.args) # op.req
    THEN "C arguments do not denote the logged request"
  ELSE IF obs["ffi"].ran # op.ffi.expressible \/ obs["libffi"].ran # op.ffi.expressible
    THEN "ffi/libffi ran although the request is not expressible (or did not run although it is)"
  ELSE ""

Reset(e) ==
  /\ st' = [fe \in FeSet |-> InitState]
  /\ alt' = [fe \in FeSet |-> InitState]
  /\ muted' = {}
  /\ info' = e
  /\ UNCHANGED stats

Step(e) ==
  LET R == [fe \in FeSet |-> StepFe(fe, e)]
      mw == MappingWhy(e.op, e.obs)
      bad == {fe \in FeSet : R[fe].verdict \in {"fail", "dev"}}
      compared == {fe \in {"cli", "http", "ffi"} : e.op.kind = "search" /\ R[fe].verdict = "ok"
                                                    /\ e.obs[Ref(fe)].ran /\ Ref(fe) \notin muted}
  IN
  /\ st' = [fe \in FeSet |-> R[fe].st]
  /\ alt' = [fe \in FeSet |-> R[fe].alt]
  /\ muted' = muted \cup bad
  /\ UNCHANGED info
  /\ mw # "" => Say("TOOL", e, [why |-> mw])
  /\ \A fe \in FeSet :
       /\ R[fe].verdict = "fail" =>
            Say("FAIL", e, [frontend |-> fe, field |-> R[fe].field, why |-> R[fe].why,
                            note |-> e.obs[fe].note, reference |-> Ref(fe)])
       /\ R[fe].verdict = "dev" =>
            Say("DEV", e, [deviation |-> DevId(fe, e.op), frontend |-> fe, field |-> R[fe].field,
                           why |-> R[fe].why])
  \* model sanity: once everything is committed both reference executions hold the same contents
  /\ (e.op.kind = "commit" /\ {"lib", "libffi"} \cap (muted \cup bad) = {}
        /\ R["lib"].st.committed # R["libffi"].st.committed)
       => Say("TOOL", e, [why |-> "lib and libffi models disagree after a commit"])
  /\ stats' = [stats EXCEPT !.steps = @ + 1,
                            !.searches_compared = @ + Cardinality(compared),
                            !.contents_checked = @ + Cardinality({fe \in FeSet : e.obs[fe].ran /\ e.obs[fe].has_contents /\ R[fe].verdict = "ok"}),
                            !.fail = @ + Cardinality({fe \in bad : R[fe].verdict = "fail"}),
                            !.dev = @ + Cardinality({fe \in bad : R[fe].verdict = "dev"})]

TInit ==
  /\ l = 1
  /\ st = [fe \in FeSet |-> InitState]
  /\ alt = [fe \in FeSet |-> InitState]
  /\ muted = {}
  /\ info = [scn |-> -1]
  /\ stats = [steps |-> 0, searches_compared |-> 0, contents_checked |-> 0, fail |-> 0, dev |-> 0]

TNext ==
  /\ l <= Len(Rec)
  /\ l' = l + 1
  /\ LET e == Rec[l] IN
       CASE e.ev = "reset" -> Reset(e)
         [] e.ev = "step" -> Step(e)
  /\ l = Len(Rec) => PrintT(ToJson([kind |-> "STATS"] @@ stats'))

TSpec == TInit /\ [][TNext]_vars

TraceAccepted ==
  LET d == TLCGet("stats").diameter IN
  IF d = Len(Rec) + 1
    THEN PrintT(ToJson([kind |-> "DONE", events |-> Len(Rec)]))
    ELSE /\ PrintT(ToJson([kind |-> "STUCK", at |-> d, events |-> Len(Rec)]))
         /\ FALSE
=============================================================================
