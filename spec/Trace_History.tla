--------------------------- MODULE Trace_History ---------------------------
(***************************************************************************)
(* Trace validation for C04 (upsert/delete/rollback semantics over 1-3    *)
(* handles) and C14 (compaction preserves contents / refuses cleanly).    *)
(*                                                                         *)
(* Consumes the ndjson written by `svh history`: one event per public     *)
(* call, each with the contents a *fresh reader* saw after the call.      *)
(* Every event is mapped onto the IndexCore action of the same name; the  *)
(* observed contents must equal Contents(committed') with each document's *)
(* stored fields equal to the stored projection of the live version.      *)
(*                                                                         *)
(* Verdicts are non-blocking: a disagreement prints one FAIL line, marks  *)
(* the scenario as skipped, and validation continues at the next `reset`. *)
(***************************************************************************)
EXTENDS IndexCore, Json, IOUtils, TLC

Rec == ndJsonDeserialize(IOEnv.TRACE)

VARIABLES l,      \* position in Rec
          docs,   \* version -> set of <<path, value>> : stored projection of that version
          skip,   \* TRUE after a failure until the next reset
          info    \* the current scenario's reset record

vars == <<coreVars, l, docs, skip, info>>

SeqToSet(s) == {s[i] : i \in DOMAIN s}

(* Stored projection of a document as written: the entries whose schema   *)
(* field is stored.  (Top-level value lists are flattened by the harness; *)
(* `"x"` and `["x"]` are the same value list - see DESIGN C04.)           *)
Project(entries) == {<<e[1], e[2]>> : e \in {x \in SeqToSet(entries) : x[3]}}

Ids(obs) == {obs.docs[i].id : i \in DOMAIN obs.docs}

ObsOk(obs, c, d) ==
  /\ obs.ok
  /\ Len(obs.docs) = Cardinality(Ids(obs))              \* one copy per id
  /\ Ids(obs) = DOMAIN c                                \* exactly the live ids
  /\ \A i \in DOMAIN obs.docs :
        SeqToSet(obs.docs[i].fields) = d[c[obs.docs[i].id]]

Fail(prop, e, why) ==
  PrintT(ToJson([kind |-> "FAIL", property |-> prop, line |-> l, scn |-> info.scn,
                 event |-> e.ev, why |-> why]))

TInit ==
  /\ CoreInit
  /\ l = 1
  /\ docs = [v \in {} |-> {}]
  /\ skip = FALSE
  /\ info = [scn |-> 0]

Reset(e) ==
  /\ committed' = EmptyContents
  /\ wal' = <<>>
  /\ pending' = [h \in {} |-> <<>>]
  /\ alive' = {}
  /\ docs' = [v \in {} |-> {}]
  /\ skip' = FALSE
  /\ info' = e

(* After the spec action fixed the primed core variables, compare.        *)
Judge(prop, e, callOk) ==
  IF callOk /\ ObsOk(e.obs, committed', docs')
    THEN skip' = FALSE
    ELSE /\ Fail(prop, e, IF ~callOk THEN "call result differs from the model"
                           ELSE "contents seen by a fresh reader differ from the model")
         /\ skip' = TRUE

SkipEvent == UNCHANGED <<coreVars, docs, skip, info>>

Apply(e) ==
  CASE e.ev = "new_writer" ->
         /\ NewWriter(e.h) /\ UNCHANGED <<docs, info>> /\ Judge("C04", e, e.ok)
    [] e.ev = "drop" ->
         /\ DropWriter(e.h) /\ UNCHANGED <<docs, info>> /\ Judge("C04", e, TRUE)
    [] e.ev = "add" ->
         /\ Add(e.h, e.id, e.ver)
         /\ docs' = [v \in (DOMAIN docs) \cup {e.ver} |->
                       IF v = e.ver THEN Project(e.doc) ELSE docs[v]]
         /\ UNCHANGED info
         /\ Judge("C04", e, e.ok)
    [] e.ev = "delete" ->
         /\ Delete(e.h, e.ids) /\ UNCHANGED <<docs, info>> /\ Judge("C04", e, e.ok)
    [] e.ev = "commit" ->
         /\ Commit(e.h) /\ UNCHANGED <<docs, info>> /\ Judge("C04", e, e.ok)
    [] e.ev = "rollback" ->
         /\ Rollback(e.h) /\ UNCHANGED <<docs, info>> /\ Judge("C04", e, e.ok)
    [] e.ev = "reopen" ->
         /\ Reopen /\ UNCHANGED <<docs, info>> /\ Judge("C04", e, e.ok)
    [] e.ev = "compact" ->
         /\ Compact /\ UNCHANGED <<docs, info>>
         /\ LET mustRefuse == e.nseg_before > 1 /\ ~info.compact_safe
                shapeOk == IF mustRefuse
                             THEN ~e.ok /\ e.same_manifest
                             ELSE /\ e.ok
                                  /\ e.nseg_before > 1 => (e.nseg <= 1 /\ e.ndel = 0)
                                  /\ e.nseg_before <= 1 => e.same_manifest
            IN Judge("C14", e, shapeOk)

TNext ==
  /\ l <= Len(Rec)
  /\ l' = l + 1
  /\ LET e == Rec[l] IN
       IF e.ev = "reset" THEN Reset(e)
       ELSE IF skip THEN SkipEvent
       ELSE Apply(e)

TSpec == TInit /\ [][TNext]_vars

TraceAccepted ==
  LET d == TLCGet("stats").diameter IN
  IF d = Len(Rec) + 1
    THEN PrintT(ToJson([kind |-> "DONE", events |-> Len(Rec)]))
    ELSE /\ PrintT(ToJson([kind |-> "STUCK", at |-> d, events |-> Len(Rec)]))
         /\ FALSE
=============================================================================
