SPECIFICATION TSpec
CONSTANTS
  Deviations = {"S23a", "S24a", "S24b"}
POSTCONDITION TraceAccepted
CHECK_DEADLOCK FALSE
