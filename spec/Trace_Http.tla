----------------------------- MODULE Trace_Http -----------------------------
(***************************************************************************)
(* Trace validation for C23 and C24.  Consumes the ndjson written by      *)
(* `svh http`: one `req` event per HTTP exchange with the live server     *)
(* (what was sent, by class; what came back, by shape), scenarios         *)
(* separated by `reset` events.                                            *)
(*                                                                         *)
(* C24: every event is judged against Http!Allowed (the status table),    *)
(* Http!BodyOk (documented JSON / error envelope) and the /healthz probe  *)
(* that followed it.                                                       *)
(*                                                                         *)
(* C23 (scenarios of the sequence drivers): the queue is not observable   *)
(* over HTTP, so the specification carries the *set* of queues that       *)
(* Http.tla's effects admit (`hyps`: ideal effect, plus the effect of a   *)
(* named deviation) and resolves it at the next /commit, whose event      *)
(* carries the contents a client then sees (/refresh + /search match_all).*)
(* A commit explained by an ideal hypothesis is silent; one explained     *)
(* only by a deviation hypothesis prints DEV; otherwise FAIL.             *)
(*                                                                         *)
(* Verdicts are non-blocking: after a disagreement the state is           *)
(* re-synchronised from the observation and validation continues.         *)
(***************************************************************************)
EXTENDS Http, Sequences, FiniteSets, Json, IOUtils

Rec == ndJsonDeserialize(IOEnv.TRACE)

VARIABLES l,            \* position in Rec
          info,         \* the scenario's reset record
          pres,         \* index exists (an /init was acknowledged)
          dirty,        \* documents of unknown validity are queued
          schemaKnown,  \* index was created from the generator's schema
          cont,         \* committed contents as last observed
          vis,          \* contents a search may show
          hyps,         \* set of [q, dev]: candidate queues
          mute23        \* C23 cannot be judged until the next reset

(* Http.tla's own variables are not used here (the trace specification needs a
   set of candidate queues, built from the same effect operators); they stay at
   their initial values. *)
tvars == <<httpVars, l, info, pres, dirty, schemaKnown, cont, vis, hyps, mute23>>

NoHyp == {[q |-> <<>>, dev |-> "none"]}

Say(kind, prop, e, dev, why) ==
  PrintT(ToJson([kind |-> kind, property |-> prop, deviation |-> dev, line |-> l,
                 scn |-> info.scn, driver |-> info.driver, n |-> e.n, ep |-> e.ep,
                 method |-> e.method, cls |-> e.cls, ctype |-> e.ctype, framing |-> e.framing,
                 note |-> e.note, outcome |-> e.outcome, status |-> e.status,
                 err_type |-> e.err_type, present |-> pres, why |-> why]))

Fail(prop, e, why) == Say("FAIL", prop, e, "", why)
Dev(prop, e, id, why) == Say("DEV", prop, e, id, why)

Ok2xx(e) == e.outcome = "response" /\ e.status \in 200..299
Routed(e) == e.ep # "unknown" /\ e.method_ok /\ e.cls # "framing"

-----------------------------------------------------------------------------
(* C24                                                                     *)

HealthJudge(e) ==
  IF e.health = "ok" /\ e.alive THEN TRUE
  ELSE Fail("C24", e, "after this request /healthz did not answer 200 {status: ok} (" \o e.health
                      \o ") or the server task had ended")

StatusJudge(e) ==
  IF StatusAllowed(e, pres, dirty, schemaKnown) THEN TRUE
  ELSE IF S24bExplains(e)
    THEN Dev("C24", e, "S24b", "oversized chunked body answered 400 instead of 413")
  ELSE Fail("C24", e, "status / error type outside the allowed set of the status table")

BodyJudge(e) ==
  IF BodyOk(e) THEN TRUE
  ELSE IF S24aExplains(e)
    THEN Dev("C24", e, "S24a", "router-level 404/405 with an empty body instead of the error envelope")
  ELSE Fail("C24", e, IF StatusClass(e.status) = "2xx"
                        THEN "2xx body lacks the documented members"
                        ELSE "non-2xx body is not {error:{type,reason}}")

Judge24(e) ==
  IF e.cls = "framing" THEN HealthJudge(e)     \* not HTTP/1.1: only "the server stays up"
  ELSE /\ IF e.outcome # "response"
            THEN Fail("C24", e, "the request got no well-formed HTTP response")
            ELSE StatusJudge(e) /\ BodyJudge(e)
       /\ HealthJudge(e)

-----------------------------------------------------------------------------
(* C23                                                                     *)

ObsIds(obs) == {obs[i].id : i \in DOMAIN obs}
ObsWellFormed(obs) == Cardinality(ObsIds(obs)) = Len(obs)
ObsMap(obs) ==
  [x \in ObsIds(obs) |-> obs[CHOOSE i \in DOMAIN obs : obs[i].id = x].ver]

Judged23 == info.driver # "fuzz" /\ ~mute23

ReqOf(e) == [ep |-> e.ep, docs |-> e.docs, ids |-> e.ids]

(* The request is one the service must acknowledge. *)
MustAck(e) == e.cls \in {"valid", "empty"} /\ Acceptable(ReqOf(e), pres)

WriteStep(e) ==
  LET req == ReqOf(e) IN
  IF Ok2xx(e)
    THEN IF MustAck(e)
           THEN /\ hyps' = {[q |-> AckEffect(h.q, req), dev |-> h.dev] : h \in hyps}
                /\ mute23' = mute23
                /\ IF e.queued = Len(WriteOps(req)) THEN TRUE
                   ELSE Fail("C23", e, "acknowledgement reports a different number of queued operations")
           ELSE \* an unacceptable request was acknowledged (C24 flags the status);
                \* what it queued is unknown
                /\ hyps' = hyps /\ mute23' = TRUE
    ELSE /\ hyps' = UNION {{[q |-> x.q, dev |-> IF x.dev = "none" THEN h.dev ELSE x.dev] :
                              x \in NackEffects(h.q, req, pres)} : h \in hyps}
         /\ mute23' = mute23

CommitStep(e) ==
  IF ~e.obs_ok
    THEN \* nothing observable (index missing, or the observing search failed: C24 reports that)
         /\ UNCHANGED <<cont, vis, hyps>>
         /\ mute23' = (mute23 \/ pres)
    ELSE
      IF ~ObsWellFormed(e.obs)
        THEN /\ Fail("C23", e, "match_all shows the same id twice")
             /\ UNCHANGED <<cont, vis, hyps>> /\ mute23' = TRUE
        ELSE
          LET o == ObsMap(e.obs) IN
          IF Ok2xx(e)
            THEN LET fits  == {h \in hyps : Fold(h.q, cont) = o}
                     ideal == {h \in fits : h.dev = "none"}
                 IN /\ IF ideal # {} THEN TRUE
                       ELSE IF fits # {}
                         THEN Dev("C23", e, (CHOOSE h \in fits : TRUE).dev,
                                  "contents after /commit lack operations acknowledged before a rejected request")
                       ELSE Fail("C23", e, "contents after /commit are not Fold(acknowledged operations, contents)")
                    /\ cont' = o /\ vis' = {o} /\ hyps' = NoHyp /\ mute23' = mute23
            ELSE /\ IF o = cont THEN TRUE
                    ELSE Fail("C23", e, "a failed /commit changed the visible contents")
                 /\ cont' = o /\ vis' = {o} /\ hyps' = hyps /\ mute23' = mute23

SearchStep(e) ==
  /\ IF e.cls = "valid" /\ e.obs_ok /\ pres
       THEN IF ObsWellFormed(e.obs) /\ ObsMap(e.obs) \in vis THEN TRUE
            ELSE Fail("C23", e, "/search shows contents that no /commit produced (queued operations visible or lost)")
       ELSE TRUE
  /\ UNCHANGED <<cont, vis, hyps, mute23>>

Step23(e) ==
  IF ~Judged23 \/ ~Routed(e) THEN UNCHANGED <<cont, vis, hyps, mute23>>
  ELSE CASE e.ep \in {"add", "bulk", "delete"} -> WriteStep(e) /\ UNCHANGED <<cont, vis>>
         [] e.ep = "commit" -> CommitStep(e)
         [] e.ep = "search" -> SearchStep(e)
         [] e.ep = "refresh" -> /\ vis' = IF Ok2xx(e) /\ pres THEN {cont} ELSE vis
                                /\ UNCHANGED <<cont, hyps, mute23>>
         [] OTHER -> UNCHANGED <<cont, vis, hyps, mute23>>

-----------------------------------------------------------------------------

Bookkeeping(e) ==
  LET created == Routed(e) /\ e.ep = "init" /\ Ok2xx(e) IN
  /\ pres' = (pres \/ created)
  /\ schemaKnown' = IF created /\ ~pres THEN e.cls = "valid" ELSE schemaKnown
  /\ dirty' = IF Routed(e) /\ e.ep = "commit" /\ Ok2xx(e) THEN FALSE
              ELSE IF Routed(e) /\ e.ep \in {"add", "bulk"} /\ Ok2xx(e)
                      /\ (e.cls \notin {"valid", "empty"} \/ ~schemaKnown) THEN TRUE
              ELSE dirty

TInit ==
  /\ HttpInit
  /\ l = 1
  /\ info = [scn |-> 0, driver |-> "none"]
  /\ pres = FALSE /\ dirty = FALSE /\ schemaKnown = TRUE
  /\ cont = EmptyContents /\ vis = {EmptyContents}
  /\ hyps = NoHyp /\ mute23 = FALSE

Reset(e) ==
  /\ info' = e
  /\ pres' = FALSE /\ dirty' = FALSE /\ schemaKnown' = TRUE
  /\ cont' = EmptyContents /\ vis' = {EmptyContents}
  /\ hyps' = NoHyp /\ mute23' = FALSE

TNext ==
  /\ l <= Len(Rec)
  /\ l' = l + 1
  /\ UNCHANGED httpVars
  /\ LET e == Rec[l] IN
       IF e.ev = "reset" THEN Reset(e)
       ELSE /\ Judge24(e)
            /\ Step23(e)
            /\ Bookkeeping(e)
            /\ UNCHANGED info

TSpec == TInit /\ [][TNext]_tvars

TraceAccepted ==
  LET d == TLCGet("stats").diameter IN
  IF d = Len(Rec) + 1
    THEN PrintT(ToJson([kind |-> "DONE", events |-> Len(Rec)]))
    ELSE /\ PrintT(ToJson([kind |-> "STUCK", at |-> d, events |-> Len(Rec)]))
         /\ FALSE
=============================================================================
