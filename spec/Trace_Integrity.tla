-------------------------- MODULE Trace_Integrity --------------------------
(***************************************************************************)
(* Trace validation for C17 (corrupted index files are detected).         *)
(*                                                                         *)
(* Consumes the ndjson written by `svh corrupt`:                           *)
(*   reset      one small index: file inventory (name, class, length),    *)
(*              the pristine observations (one digest per query of the    *)
(*              battery), the pristine replay of the write-ahead log      *)
(*   probe      one damage (flip of one byte with a mask / truncation to  *)
(*              a length) of one file, and the raw facts of running the   *)
(*              real open + reader + search battery + log replay + writer *)
(*              on the damaged index under catch_unwind                   *)
(*   file_done  number of probes made on the file                         *)
(*                                                                         *)
(* For every probe the outcome class is derived here from the raw facts   *)
(* (the harness's own label is only cross-checked: TOOL on disagreement)  *)
(* and must be in Integrity!Allowed(class of the damaged file).           *)
(* DifferentResults for a manifest byte whose JSON-pointer class is in    *)
(* S17aPointers is explained by the named deviation S17a (DEV); anything  *)
(* else is a FAIL.  Probes are independent, so validation never stops.    *)
(***************************************************************************)
EXTENDS Integrity, Json, IOUtils, TLC

Rec == ndJsonDeserialize(IOEnv.TRACE)

VARIABLES l,        \* position in Rec
          info,     \* the current scenario's reset record
          nfile     \* probes seen for the current file

vars == <<l, info, nfile>>

Say(kind, e, why, extra) ==
  PrintT(ToJson([kind |-> kind, property |-> "C17", line |-> l, scn |-> info.scn,
                 file |-> e.file, class |-> e.class, why |-> why] @@ extra))

(* operations queued behind the last commit marker of a replayed list      *)
RECURSIVE PendingStr(_, _)
PendingStr(entries, acc) ==
  IF entries = <<>> THEN acc
  ELSE IF Head(entries) = "commit" THEN PendingStr(Tail(entries), <<>>)
  ELSE PendingStr(Tail(entries), Append(acc, Head(entries)))

Base(e) ==
  IF e.panic THEN "Panic"
  ELSE IF ~(e.open_ok /\ e.reader_ok) THEN "OpenErr"
  ELSE IF ~e.search_ok THEN "SearchErr"
  ELSE IF e.obs = info.obs THEN "SameResults"
  ELSE "DifferentResults"

Derived(e) ==
  LET b == Base(e) IN
  IF e.class = "wal" /\ b = "SameResults"
    THEN IF ~(e.replay_ok /\ e.writer_ok) THEN "OpenErr"        \* the log recovery reported an error
         ELSE IF /\ IsPrefix(e.replay, info.replay)
                 /\ e.pending = PendingStr(e.replay, <<>>)
                THEN "PendingPrefix" ELSE "PendingNotPrefix"
    ELSE b

Detail(e) == [kind_of_damage |-> e.kind, off |-> e.off, mask |-> e.mask, ptr |-> e.ptr,
              outcome |-> Derived(e), err |-> e.err, diff |-> e.diff]

Probe(e) ==
  LET o == Derived(e)
      dev == /\ e.class = "manifest" /\ e.kind = "flip" /\ o = "DifferentResults"
             /\ e.ptr \in S17aPointers
      ok == o \in Allowed(e.class)
  IN
  /\ (o # e.outcome) => Say("TOOL", e, "harness outcome label differs from the derived class", Detail(e))
  /\ (~ok /\ dev) => Say("DEV", e, "manifest byte changed silently: results differ, no error",
                         Detail(e) @@ [deviation |-> "S17a"])
  /\ (~ok /\ ~dev) => Say("FAIL", e, "outcome not allowed for a damaged file of this class", Detail(e))
  /\ nfile' = nfile + 1
  /\ UNCHANGED info

(* vacuity guards on the scenario: at least two segments' parts, a         *)
(* manifest, a log with at least two replayable records                    *)
Reset(e) ==
  LET classes == [i \in DOMAIN e.files |-> e.files[i].class]
      count(c) == Cardinality({i \in DOMAIN classes : classes[i] = c})
  IN
  /\ info' = e
  /\ nfile' = 0
  /\ (count("segment") < 10 \/ count("manifest") # 1 \/ count("wal") # 1 \/ Len(e.replay) < 2
      \/ Len(e.obs) < 4) =>
       PrintT(ToJson([kind |-> "TOOL", property |-> "C17", line |-> l, scn |-> e.scn,
                      why |-> "scenario lacks two segments, a manifest, or a log with two records"]))

FileDone(e) ==
  /\ UNCHANGED info
  /\ nfile' = 0
  /\ (nfile # e.probes \/ (info.dense /\ e.probes # 4 * e.len)) =>
       PrintT(ToJson([kind |-> "TOOL", property |-> "C17", line |-> l, scn |-> info.scn,
                      file |-> e.file, why |-> "probe count differs from the enumeration size",
                      probes |-> e.probes, seen |-> nfile, len |-> e.len]))

TInit ==
  /\ l = 1
  /\ info = [scn |-> 0]
  /\ nfile = 0

TNext ==
  /\ l <= Len(Rec)
  /\ l' = l + 1
  /\ LET e == Rec[l] IN
       CASE e.ev = "reset" -> Reset(e)
         [] e.ev = "probe" -> Probe(e)
         [] e.ev = "file_done" -> FileDone(e)

TSpec == TInit /\ [][TNext]_vars

TraceAccepted ==
  LET d == TLCGet("stats").diameter IN
  IF d = Len(Rec) + 1
    THEN PrintT(ToJson([kind |-> "DONE", events |-> Len(Rec)]))
    ELSE /\ PrintT(ToJson([kind |-> "STUCK", at |-> d, events |-> Len(Rec)]))
         /\ FALSE
=============================================================================
