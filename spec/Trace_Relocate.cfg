SPECIFICATION TSpec
CONSTANTS
  Mode = "rebase"
  Docs = {}
  MaxOps = 0
POSTCONDITION TraceAccepted
CHECK_DEADLOCK FALSE
