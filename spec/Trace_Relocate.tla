--------------------------- MODULE Trace_Relocate ---------------------------
(***************************************************************************)
(* Trace validation for C28 (a copied index directory is self-contained). *)
(*                                                                         *)
(* Consumes the ndjson written by `svh relocate`:                          *)
(*   reset   one scenario: how the original (A) was created, how it was   *)
(*           relocated (copy / move), what became of it (kept, modified,  *)
(*           compacted, removed, moved), its contents and observation     *)
(*           digests before the copy, the file names its manifest listed  *)
(*   call    an operation through the index opened at the new path (B):   *)
(*           open | search | commit (adds, deletes) | compact             *)
(*   fs      every primitive storage operation the traced-fs hook         *)
(*           recorded during the call, with the class of the path it      *)
(*           names: B (under the copy), A (under the original), other     *)
(*   ret     the call's result; for search the contents seen (id, ver)    *)
(*           and the battery digests                                      *)
(*   inv     difference of the original's inventory (names, sizes,        *)
(*           content hashes) across all operations through the copy       *)
(*                                                                         *)
(* Checked: Confined on every fs event; SameResults on every ret (the     *)
(* operation succeeds; contents = contents at copy time updated by the    *)
(* copy's own commits via IndexOps!Fold; before the copy is mutated also  *)
(* the score-level digests equal the original's); OriginalUntouched on    *)
(* inv.  A disagreement that is exactly what the as-built absolute-path   *)
(* behaviour predicts (Relocate!AsBuiltExplains; a failure caused by a    *)
(* failed read of a listed file under A; removal of listed files that the *)
(* trace shows being unlinked by compaction) is reported as DEV S28a,     *)
(* once per scenario and kind; anything else is a FAIL.  Validation       *)
(* continues after every verdict.                                         *)
(***************************************************************************)
EXTENDS IndexOps, Relocate, Json, IOUtils, TLC

Rec == ndJsonDeserialize(IOEnv.TRACE)

VARIABLES l,         \* position in Rec
          info,      \* the scenario's reset record
          cur,       \* contents the copy must show: id -> ver
          call,      \* operation in flight
          failedA,   \* a read of a listed file under A failed during this call
          unlinked,  \* listed names the trace shows removed under A (as-built cleanup)
          mutated,   \* the copy has committed or compacted (digests no longer comparable)
          said,      \* verdict kinds already printed for this scenario
          nfs        \* storage events seen in this scenario

vars == <<l, info, cur, call, failedA, unlinked, mutated, said, nfs>>

ToFn(list) == [id \in {list[i].id : i \in DOMAIN list} |->
                 (CHOOSE x \in SeqToSet(list) : x.id = id).ver]
NoDup(list) == Cardinality({list[i].id : i \in DOMAIN list}) = Len(list)
ToOps(list) == [i \in DOMAIN list |->
                  IF list[i].t = "add" THEN AddOp(list[i].id, list[i].ver) ELSE DelOp(list[i].id)]

NoCall == [op |-> "none", ops |-> <<>>]

Listed == SeqToSet(info.segnames)

(* print once per scenario and key                                         *)
Say(kind, key, why, extra) ==
  (key \notin said) =>
    PrintT(ToJson([kind |-> kind, property |-> "C28", line |-> l, scn |-> info.scn,
                   how |-> info.how, fate |-> info.fate, call |-> call.op, why |-> why] @@ extra))

Dev(key, why, extra) == Say("DEV", key, why, extra @@ [deviation |-> "S28a"])

TInit ==
  /\ l = 1
  /\ info = [scn |-> 0, how |-> "", fate |-> "", segnames |-> <<>>]
  /\ cur = EmptyContents
  /\ call = NoCall
  /\ failedA = FALSE
  /\ unlinked = {}
  /\ mutated = FALSE
  /\ said = {}
  /\ nfs = 0

Reset(e) ==
  /\ info' = e
  /\ cur' = ToFn(e.pre)
  /\ call' = NoCall
  /\ failedA' = FALSE
  /\ unlinked' = {}
  /\ mutated' = FALSE
  /\ said' = {}
  /\ nfs' = 0
  /\ (~NoDup(e.pre) \/ Len(e.segnames) = 0) =>
       PrintT(ToJson([kind |-> "TOOL", property |-> "C28", line |-> l, scn |-> e.scn,
                      why |-> "scenario without committed segments or with duplicate ids"]))

Call(e) ==
  /\ call' = e
  /\ failedA' = FALSE
  /\ UNCHANGED <<info, cur, unlinked, mutated, said, nfs>>

(* Confined *)
Fs(e) ==
  LET underA == e.cls = "A" \/ e.to_cls = "A"
      other == e.cls = "other" \/ e.to_cls = "other"
      explained == e.cls = "A" /\ e.to_cls = "A" /\ AsBuiltExplains(e.op, e.name, Listed, call.op)
      key == IF other THEN "other:" \o e.op
             ELSE IF explained THEN (IF e.op \in ReadOps THEN "dev:read" ELSE "dev:unlink")
             ELSE "A:" \o e.op
  IN
  /\ nfs' = nfs + 1
  /\ IF other
       THEN Say("FAIL", key, "storage operation outside both index directories",
                [op |-> e.op, name |-> e.name, cls |-> e.cls])
       ELSE IF underA /\ explained
         THEN Dev(key, IF e.op \in ReadOps
                         THEN "the copy reads the original's segment files (absolute paths in the manifest)"
                         ELSE "compaction through the copy deletes the original's segment files",
                  [op |-> e.op, name |-> e.name, cls |-> e.cls, ok |-> e.ok])
       ELSE IF underA
         THEN Say("FAIL", key, "storage operation under the original's directory",
                  [op |-> e.op, name |-> e.name, cls |-> e.cls])
       ELSE TRUE
  /\ said' = IF other \/ underA THEN said \cup {key} ELSE said
  /\ failedA' = (failedA \/ (underA /\ explained /\ e.op \in ReadOps /\ ~e.ok))
  /\ unlinked' = IF underA /\ explained /\ e.op \in RemoveOps THEN unlinked \cup {e.name} ELSE unlinked
  /\ UNCHANGED <<info, cur, call, mutated>>

(* SameResults *)
Ret(e) ==
  LET failKey == "fail:" \o call.op
      resKey == "results"
      goodSearch == /\ NoDup(e.obs) /\ ToFn(e.obs) = cur
                    /\ (~mutated => e.digest = info.pre_digest)
  IN
  /\ call' = NoCall
  /\ failedA' = FALSE
  /\ UNCHANGED <<info, unlinked, nfs>>
  /\ IF ~e.ok
       THEN /\ IF failedA
                 THEN Dev("dev:" \o failKey, "operation through the copy fails: the original's segment files are gone",
                          [err |-> e.err])
                 ELSE Say("FAIL", failKey, "operation through the copy failed", [err |-> e.err])
            /\ said' = said \cup {IF failedA THEN "dev:" \o failKey ELSE failKey}
            /\ UNCHANGED <<cur, mutated>>
       ELSE CASE call.op = "commit" ->
                   /\ cur' = Fold(ToOps(call.ops), cur)
                   /\ mutated' = TRUE
                   /\ UNCHANGED said
              [] call.op = "compact" ->
                   /\ mutated' = TRUE
                   /\ UNCHANGED <<cur, said>>
              [] call.op = "search" ->
                   /\ ~goodSearch => Say("FAIL", resKey, "results through the copy differ from the original's (updated by the copy's own commits)",
                                         [seen |-> e.obs])
                   /\ said' = IF goodSearch THEN said ELSE said \cup {resKey}
                   /\ cur' = IF NoDup(e.obs) THEN ToFn(e.obs) ELSE cur       \* re-synchronise
                   /\ UNCHANGED mutated
              [] OTHER -> UNCHANGED <<cur, mutated, said>>

(* OriginalUntouched *)
Inv(e) ==
  LET same == e.removed = <<>> /\ e.added = <<>> /\ e.changed = <<>> /\ e.a_exists_after = info.a_exists
      asBuilt == /\ e.added = <<>> /\ e.changed = <<>> /\ e.a_exists_after = info.a_exists
                 /\ SeqToSet(e.removed) \subseteq unlinked
  IN
  /\ UNCHANGED <<info, cur, call, failedA, unlinked, mutated, nfs>>
  /\ IF same THEN TRUE
     ELSE IF asBuilt
       THEN Dev("dev:inventory", "files of the original were deleted by compaction through the copy",
                [removed |-> e.removed])
       ELSE Say("FAIL", "inventory", "the original directory was changed by operations through the copy",
                [removed |-> e.removed, added |-> e.added, changed |-> e.changed,
                 exists_after |-> e.a_exists_after])
  /\ said' = said \cup {IF same THEN "ok" ELSE IF asBuilt THEN "dev:inventory" ELSE "inventory"}
  /\ (nfs = 0) => PrintT(ToJson([kind |-> "TOOL", property |-> "C28", line |-> l, scn |-> info.scn,
                                 why |-> "no storage event was recorded for this scenario"]))

TNext ==
  /\ l <= Len(Rec)
  /\ l' = l + 1
  /\ LET e == Rec[l] IN
       CASE e.ev = "reset" -> Reset(e)
         [] e.ev = "call" -> Call(e)
         [] e.ev = "fs" -> Fs(e)
         [] e.ev = "ret" -> Ret(e)
         [] e.ev = "inv" -> Inv(e)

TSpec == TInit /\ [][TNext]_vars

TraceAccepted ==
  LET d == TLCGet("stats").diameter IN
  IF d = Len(Rec) + 1
    THEN PrintT(ToJson([kind |-> "DONE", events |-> Len(Rec)]))
    ELSE /\ PrintT(ToJson([kind |-> "STUCK", at |-> d, events |-> Len(Rec)]))
         /\ FALSE
=============================================================================
