--------------------------- MODULE Trace_Requests ---------------------------
(***************************************************************************)
(* Trace validation for C16.  Consumes the ndjson of `svh robust`:          *)
(*   req  {i, src (tlc|rand|mut), idx, cls [dimension -> class | "free"],   *)
(*         outcome (Ok|Err|Panic|Abort|Hang), pcls (panic class), loc, msg, *)
(*         feat {cursor_present, cursor_nonascii, cursor_bytes, hist_bounds,*)
(*               top_hits, moving_avg, pipeline_agg: syntactic facts about  *)
(*               the request text}, ms, req (request text)}                 *)
(*   skip {i, src, cls, why}   a class vector that could not be             *)
(*         instantiated on this index (e.g. no second page for "valid"      *)
(*         cursor), or the hang budget                                      *)
(*                                                                         *)
(* Judgement: outcome \in Outcome(cls) (Requests.tla).  An outcome outside  *)
(* the allowed set is DEV when a listed known finding predicts exactly this *)
(* outcome (panic class + request class / syntactic feature), else FAIL.    *)
(***************************************************************************)
EXTENDS Requests, Json, IOUtils, TLC

Rec == ndJsonDeserialize(IOEnv.TRACE)

VARIABLE l

(* Known findings: the exact deviant outcome each one predicts.             *)
Known == {
  \* from_utf8(2-byte chunk).unwrap() on a cursor with multi-byte characters
  [id |-> "S16a", outcomes |-> {"Panic"}, pcls |-> {"cursor_utf8"}],
  \* debug_assert on leaf identity when one term is scored under two leaves
  [id |-> "S16b", outcomes |-> {"Panic"}, pcls |-> {"leaf_assert"}],
  \* pipeline aggregation at the top level: unreachable!()
  [id |-> "S16c", outcomes |-> {"Panic"}, pcls |-> {"pipeline_unreachable"}],
  \* top_hits from/size from the request: `start + size`, with_capacity(size) (capacity overflow
  \* panic near usize::MAX, failed allocation = process abort for sizes like 7e8)
  [id |-> "S16d", outcomes |-> {"Panic", "Abort"}, pcls |-> {"aggs_add_overflow", "capacity_overflow", "-"}],
  \* moving_avg predict: vec![x; predict]
  [id |-> "S16e", outcomes |-> {"Panic", "Abort"}, pcls |-> {"capacity_overflow", "-"}],
  \* histogram extended/hard bounds materialise every bucket, no cap
  [id |-> "S16f", outcomes |-> {"Hang", "Abort"}, pcls |-> {"-"}] }

Free(e) == e.cls.aggs = "free"
ClassMatch(k, e) ==
  CASE k.id = "S16a" -> e.feat.cursor_nonascii
    [] k.id = "S16b" -> e.cls.query \in {"dup_term", "dup_term_dis_max", "free"}
    [] k.id = "S16c" -> e.cls.aggs = "pipeline_no_parent" \/ (Free(e) /\ e.feat.pipeline_agg)
    [] k.id = "S16d" -> e.cls.aggs = "top_hits_huge" \/ (Free(e) /\ e.feat.top_hits)
    [] k.id = "S16e" -> e.cls.aggs = "moving_avg_predict_huge" \/ (Free(e) /\ e.feat.moving_avg)
    [] k.id = "S16f" -> e.cls.aggs \in {"histogram_bounds_wide", "date_histogram_zero_interval"}
                        \/ (Free(e) /\ e.feat.hist_bounds)
    [] OTHER -> FALSE

Explains(k, e) ==
  /\ e.outcome \in k.outcomes
  /\ e.pcls \in k.pcls
  /\ (e.pcls = "-") = (e.outcome # "Panic")       \* only a panic carries a panic class
  /\ ClassMatch(k, e)

Base(kind, e) ==
  [kind |-> kind, property |-> "C16", line |-> l, i |-> e.i, src |-> e.src, idx |-> e.idx,
   outcome |-> e.outcome, req |-> e.req, msg |-> e.msg, loc |-> e.loc, pcls |-> e.pcls]

Judge(e) ==
  IF ~WellFormed(e.cls) \/ e.outcome \notin AllOutcomes
    THEN PrintT(ToJson([kind |-> "TOOL", property |-> "C16", line |-> l, why |-> "malformed event"]))
  ELSE IF e.outcome \in Outcome(e.cls) THEN TRUE
  ELSE LET ex == {k \in Known : Explains(k, e)} IN
       IF ex # {}
         THEN \A k \in ex : PrintT(ToJson(Base("DEV", e) @@ [deviation |-> k.id]))
         ELSE PrintT(ToJson(Base("FAIL", e) @@
                [why |-> IF e.outcome \in {"Ok", "Err"}
                           THEN "outcome differs from the one the documentation pins for this class"
                           ELSE "search crashed or hung",
                 allowed |-> Outcome(e.cls), cls |-> e.cls]))

TInit == l = 1
TNext ==
  /\ l <= Len(Rec)
  /\ l' = l + 1
  /\ LET e == Rec[l] IN
       CASE e.ev = "req"  -> Judge(e)
         [] e.ev = "skip" -> TRUE
TSpec == TInit /\ [][TNext]_l

TraceAccepted ==
  LET d == TLCGet("stats").diameter IN
  IF d = Len(Rec) + 1
    THEN PrintT(ToJson([kind |-> "DONE", events |-> Len(Rec)]))
    ELSE /\ PrintT(ToJson([kind |-> "STUCK", at |-> d, events |-> Len(Rec)]))
         /\ FALSE
=============================================================================
