---------------------------- MODULE Trace_Search ----------------------------
(***************************************************************************)
(* Trace validation of search responses against the reference semantics   *)
(* of Search.tla (matching, filters), Rank.tla (scores, order, paging) and *)
(* the relational requirements between executions.                        *)
(*                                                                         *)
(* Events (svh search): reset, dict, corpus, then any number of `search`  *)
(* events, each carrying the abstract request, the check kind and the     *)
(* observed response.  Verdicts are non-blocking (FAIL / DEV lines).      *)
(***************************************************************************)
EXTENDS Vector, Json, IOUtils

Rec == ndJsonDeserialize(IOEnv.TRACE)

VARIABLES l, D, docs, info

vars == <<l, D, docs, info>>

Say(kind, prop, e, why, extra) ==
  PrintT(ToJson([kind |-> kind, property |-> prop, line |-> l, scn |-> info.scn,
                 check |-> e.check, why |-> why, deviation |-> extra]))

IdsOf(X) == {d.id : d \in X}

TInit ==
  /\ l = 1
  /\ D = [x \in {} |-> 0]
  /\ docs = {}
  /\ info = [scn |-> 0]

LoadDict(e) ==
  D' = [s \in {e.entries[i].s : i \in DOMAIN e.entries} |->
          LET x == CHOOSE y \in SeqToSet(e.entries) : y.s = s IN
          [cp |-> x.cp, lc |-> x.lc, alc |-> x.alc]]

NoDupSeq(s) == Cardinality(SeqToSet(s)) = Len(s)

-----------------------------------------------------------------------------
(* check kinds                                                             *)

(* "match": the returned ids (limit covers the corpus, exhaustive bm25     *)
(* execution) are exactly the live documents satisfying query and filters. *)
CheckMatch(e) ==
  IF ~UnderCaps(D, docs, e.q) THEN TRUE       \* above an expansion cap: not asserted
  ELSE
    LET want == IdsOf(Expected(D, docs, e.q, e.filters))
        got == SeqToSet(e.obs.ids)
    IN IF e.obs.ok /\ NoDupSeq(e.obs.ids) /\ got = want THEN TRUE
       ELSE IF e.obs.ok /\ NoDupSeq(e.obs.ids)
               /\ got = IdsOf(ExpectedAsBuilt(D, docs, e.q, e.filters))
         THEN Say("DEV", e.prop, e, "only documents containing a scored term are candidates", "S07a")
       ELSE Say("FAIL", e.prop, e,
                IF ~e.obs.ok THEN "search returned an error"
                ELSE "returned ids differ from the documents that satisfy the request", "")

Judge(e) ==
  CASE e.check = "match" -> CheckMatch(e)
    [] e.check = "rank" -> CheckRank(D, docs, e, l, info.scn)
    [] e.check = "paging" -> CheckPaging(D, docs, e, l, info.scn)
    [] e.check = "stale" -> CheckStale(e, l, info.scn)
    [] e.check = "same" -> CheckSame(e, l, info.scn)
    [] e.check = "vec" -> CheckVec(D, docs, e, l, info.scn)
    [] e.check = "hybrid" -> CheckHybrid(D, docs, e, l, info.scn)
    [] e.check = "vecdim" -> CheckVecDim(e, l, info.scn)
    [] OTHER -> Say("TOOL", e.prop, e, "unknown check kind", "")

TNext ==
  /\ l <= Len(Rec)
  /\ l' = l + 1
  /\ LET e == Rec[l] IN
       CASE e.ev = "reset" -> info' = e /\ D' = [x \in {} |-> 0] /\ docs' = {}
         [] e.ev = "dict" -> LoadDict(e) /\ UNCHANGED <<docs, info>>
         [] e.ev = "corpus" -> docs' = SeqToSet(e.docs) /\ UNCHANGED <<D, info>>
         [] e.ev = "search" -> Judge(e) /\ UNCHANGED <<D, docs, info>>

TSpec == TInit /\ [][TNext]_vars

TraceAccepted ==
  LET d == TLCGet("stats").diameter IN
  IF d = Len(Rec) + 1
    THEN PrintT(ToJson([kind |-> "DONE", events |-> Len(Rec)]))
    ELSE /\ PrintT(ToJson([kind |-> "STUCK", at |-> d, events |-> Len(Rec)]))
         /\ FALSE
=============================================================================
