--------------------------- MODULE Trace_Validate ---------------------------
(***************************************************************************)
(* Trace validation for C15.  Consumes the ndjson of `svh validate`:        *)
(*   schema events  {ev, k, def (abstract schema), valid (shape of the      *)
(*                   second, valid document used with this schema)}         *)
(*   case events    {ev, scn, src, schema, doc (abstract shape), add1,      *)
(*                   commit1, add2, commit2, new_writer, commit3, visible,  *)
(*                   id1, ...}; every call outcome is {ok, cls, msg}.       *)
(*                                                                         *)
(* Judgements per case (all non-blocking, cases are independent):          *)
(*  J1 observational core, no model needed: a document accepted by add      *)
(*     never makes a commit fail - neither its own commit, nor the commit   *)
(*     of a later valid document, nor the commit of a new writer that       *)
(*     replays the log; a rejected document leaves nothing behind.          *)
(*  J2 Class = MustReject => add fails.   J3 Class = MustAccept => add Ok.  *)
(*  J4 after three successful commits a fresh reader sees exactly the       *)
(*     accepted documents.                                                  *)
(* A J1/J2 disagreement that the as-built validator model predicts          *)
(* (AddAccepts with all KnownDeviations, CollectAccepts) is printed as DEV  *)
(* with the deviations that were necessary for the acceptance; anything     *)
(* else is FAIL.  DRIFT lines (model of the code as built differs from the  *)
(* code although no property is violated) are informational.                *)
(***************************************************************************)
EXTENDS Validate, Json, IOUtils, TLC

Rec == ndJsonDeserialize(IOEnv.TRACE)

VARIABLES l, schemas
vars == <<l, schemas>>

SeqToSet(s) == {s[i] : i \in DOMAIN s}

Msg(kind, e, extra) ==
  PrintT(ToJson([kind |-> kind, property |-> "C15", line |-> l, scn |-> e.scn, src |-> e.src,
                 doc |-> e.doc_json, muts |-> e.muts] @@ extra))

(* Deviations whose defect is the reason why a commit fails.               *)
CommitDivergent == {"S15a", "S15b", "S15d"}
ClsOf(x) == CASE x = "S15a" -> "unknown_field" [] x = "S15b" -> "nested_not_object"
              [] x = "S15d" -> "vector" [] OTHER -> "-"

Commits(e) == <<e.commit1, e.commit2, e.commit3>>
FirstBad(e) == LET cs == Commits(e) IN cs[CHOOSE i \in 1..3 : ~cs[i].ok /\ \A j \in 1..(i - 1) : cs[j].ok]
AllCommitsOk(e) == e.commit1.ok /\ e.commit2.ok /\ e.new_writer.ok /\ e.commit3.ok
Panicked(e) == \E o \in {e.add1, e.commit1, e.add2, e.commit2, e.new_writer, e.commit3} : o.cls = "panic"

JudgeCase(e) ==
  LET s    == schemas[e.schema].def
      d    == e.doc
      cl   == Class(s, d)
      nec  == Necessary(s, d)
      builtAdd == AddAccepts(s, d, KnownDeviations)
      builtCommit == builtAdd /\ CollectAccepts(s, d)
      blocked == ~AllCommitsOk(e)
      badcls  == IF e.new_writer.ok THEN FirstBad(e).cls ELSE e.new_writer.cls
      \* J1 -------------------------------------------------------------
      j1 == IF Panicked(e)
              THEN Msg("FAIL", e, [why |-> "panic in add/commit", class |-> cl])
            ELSE IF e.add1.ok /\ blocked
              THEN LET expl == {x \in nec \cap CommitDivergent : ClsOf(x) = badcls} IN
                   IF builtAdd /\ ~builtCommit /\ expl # {}
                     THEN \A x \in expl :
                            Msg("DEV", e, [deviation |-> x, class |-> cl, commit_error |-> FirstBad(e).msg,
                                           blocks_later |-> (~e.commit2.ok \/ ~e.commit3.ok),
                                           why |-> "accepted by add, rejected by every later commit"])
                     ELSE Msg("FAIL", e, [why |-> "document accepted by add makes commit fail",
                                          class |-> cl, commit_error |-> badcls])
            ELSE IF ~e.add1.ok /\ (blocked \/ ~e.add2.ok)
              THEN Msg("FAIL", e, [why |-> "a rejected document disturbed later calls", class |-> cl])
            ELSE IF e.add1.ok /\ ~e.add2.ok
              THEN Msg("FAIL", e, [why |-> "valid second document rejected", class |-> cl])
            ELSE TRUE
      \* J2 / J3 ----------------------------------------------------------
      j2 == IF cl = "MustReject" /\ e.add1.ok /\ ~Panicked(e)
              THEN IF builtAdd /\ nec # {}
                     THEN \A x \in nec :
                            Msg("DEV", e, [deviation |-> x, class |-> cl,
                                           why |-> "document that must be rejected was accepted by add"])
                     ELSE Msg("FAIL", e, [why |-> "document that must be rejected was accepted by add",
                                          class |-> cl])
              ELSE TRUE
      j3 == IF cl = "MustAccept" /\ ~e.add1.ok
              THEN Msg("FAIL", e, [why |-> "valid document rejected by add: " \o e.add1.msg, class |-> cl])
              ELSE TRUE
      \* J4 -------------------------------------------------------------
      want == (IF e.add1.ok THEN {e.id1} ELSE {}) \cup (IF e.add2.ok THEN {"d2"} ELSE {})
      j4 == IF AllCommitsOk(e) /\ ~Panicked(e) /\ SeqToSet(e.visible) # want
              THEN Msg("FAIL", e, [why |-> "committed documents not visible", class |-> cl])
              ELSE TRUE
      \* informational: the model of the code as built differs from the code
      \* (neither the validator as built nor the repaired one predicts what add/commit did)
      idealAdd == AddAccepts(s, d, {})
      drift == IF /\ ~Panicked(e)
                  /\ \/ e.add1.ok \notin {builtAdd, idealAdd}
                     \/ e.add1.ok /\ e.commit1.ok # CollectAccepts(s, d)
                 THEN Msg("DRIFT", e, [class |-> cl, model_add_built |-> builtAdd, model_add_ideal |-> idealAdd,
                                       model_collect |-> CollectAccepts(s, d),
                                       add |-> e.add1.ok, commit |-> e.commit1.ok])
                 ELSE TRUE
  IN j1 /\ j2 /\ j3 /\ j4 /\ drift

JudgeSchema(e) ==
  IF Class(e.def, e.valid) # "MustAccept"
    THEN PrintT(ToJson([kind |-> "TOOL", property |-> "C15", line |-> l,
                        why |-> "the driver's valid document is not MustAccept"]))
    ELSE TRUE

TInit == l = 1 /\ schemas = [k \in {} |-> 0]

TNext ==
  /\ l <= Len(Rec)
  /\ l' = l + 1
  /\ LET e == Rec[l] IN
       CASE e.ev = "schema" ->
              /\ JudgeSchema(e)
              /\ schemas' = [k \in DOMAIN schemas \cup {e.k} |-> IF k = e.k THEN e ELSE schemas[k]]
         [] e.ev = "case" -> JudgeCase(e) /\ UNCHANGED schemas

TSpec == TInit /\ [][TNext]_vars

TraceAccepted ==
  LET d == TLCGet("stats").diameter IN
  IF d = Len(Rec) + 1
    THEN PrintT(ToJson([kind |-> "DONE", events |-> Len(Rec)]))
    ELSE /\ PrintT(ToJson([kind |-> "STUCK", at |-> d, events |-> Len(Rec)]))
         /\ FALSE
=============================================================================
