------------------------------ MODULE Validate ------------------------------
(***************************************************************************)
(* C15 - every accepted document can be committed.                         *)
(*                                                                         *)
(* Documents are abstract JSON shapes, schemas are abstract field lists.   *)
(*                                                                         *)
(*   Class(schema, doc)  in {"MustAccept", "MustReject", "Unspecified"}    *)
(*       what the documentation / the property statement demand of         *)
(*       add_document ("Unspecified" wherever they are silent);            *)
(*   AddAccepts(schema, doc, Dev)   model of Schema::validate_document     *)
(*       (Dev = {} is the ideal validator, Dev = KnownDeviations is the    *)
(*       validator as built);                                              *)
(*   CollectAccepts(schema, doc)    model of segment.rs collect_document,  *)
(*       i.e. what a commit needs of a queued document.                    *)
(*                                                                         *)
(* Theorems (checked by TLC over the universe of MC_Validate.tla):         *)
(*   AddAccepts => CollectAccepts        (no accepted document can block)  *)
(*   Class = MustReject => ~AddAccepts,  Class = MustAccept => AddAccepts. *)
(***************************************************************************)
EXTENDS Naturals, Sequences, FiniteSets

-----------------------------------------------------------------------------
(* Abstract JSON values: uniform records so that TLC can compare them.     *)
(* k: "absent" (no such key; never inside a document), "null", "str" (a    *)
(* non-blank string), "estr" (""), "bstr" (whitespace only), "int", "frac" *)
(* (a number with a fraction), "bool", "arr" (items), "obj" (names/items). *)

V(k, items, names) == [k |-> k, items |-> items, names |-> names]
Absent == V("absent", <<>>, <<>>)
Null   == V("null", <<>>, <<>>)
Str    == V("str", <<>>, <<>>)
EStr   == V("estr", <<>>, <<>>)
BStr   == V("bstr", <<>>, <<>>)
Int    == V("int", <<>>, <<>>)
Frac   == V("frac", <<>>, <<>>)
Bool   == V("bool", <<>>, <<>>)
Arr(items)        == V("arr", items, <<>>)
Obj(names, items) == V("obj", items, names)

IsStr(v) == v.k \in {"str", "estr", "bstr"}
IsNum(v) == v.k \in {"int", "frac"}
Elems(v) == {v.items[i] : i \in DOMAIN v.items}
Keys(o)  == {o.names[i] : i \in DOMAIN o.names}
Get(o, n) == o.items[CHOOSE i \in DOMAIN o.names : o.names[i] = n]

(* Abstract schemas.  A field definition is                                 *)
(*   [name, kind \in {"text","keyword","i64","f64","nested","vector"},      *)
(*    nullable, dim (vector dimension, else 0), props (nested only)]        *)
FieldNames(fs) == {fs[i].name : i \in DOMAIN fs}
Field(fs, n)   == fs[CHOOSE i \in DOMAIN fs : fs[i].name = n]
Leaf(name, kind, nullable) ==
  [name |-> name, kind |-> kind, nullable |-> nullable, dim |-> 0, props |-> <<>>]
Nested(name, nullable, props) ==
  [name |-> name, kind |-> "nested", nullable |-> nullable, dim |-> 0, props |-> props]
Vector(name, dim) ==
  [name |-> name, kind |-> "vector", nullable |-> TRUE, dim |-> dim, props |-> <<>>]

KnownDeviations == {"S15a", "S15b", "S15c", "S15d"}
  \* S15a  unknown top-level fields are not looked at by validate_document
  \* S15b  NestedField::validate recurses into arrays, so arrays of arrays pass
  \* S15c  nested leaf properties accept any array and any number
  \* S15d  vector fields are not looked at by validate_document

-----------------------------------------------------------------------------
(* What the documentation demands: a three-valued judgement per value.     *)
(* README: "Every document must include a string primary key"; documents    *)
(* without it are rejected; keyword/text values are strings or arrays of    *)
(* strings (multi-valued fields), numeric values numbers; `nullable`;       *)
(* nested fields are objects or arrays of objects whose non-nullable        *)
(* properties are required; "vectors with the wrong dimension are           *)
(* rejected".  Property statement: wrong value types, unknown fields,       *)
(* malformed or missing required nested values are rejected when queued.    *)
(* Everything else (empty strings, empty arrays, nulls inside arrays, a     *)
(* fraction in an i64 field, a null vector ...) is Unspecified.             *)

Worst(S) == IF "bad" \in S THEN "bad" ELSE IF "unspec" \in S THEN "unspec" ELSE "good"

StrElem(e) == CASE e.k = "str" -> "good"
                [] e.k \in {"estr", "bstr", "null"} -> "unspec"
                [] OTHER -> "bad"
I64Elem(e) == CASE e.k = "int" -> "good"
                [] e.k \in {"frac", "null"} -> "unspec"
                [] OTHER -> "bad"
F64Elem(e) == CASE IsNum(e) -> "good"
                [] e.k = "null" -> "unspec"
                [] OTHER -> "bad"
Elem(f, e) == CASE f.kind \in {"text", "keyword"} -> StrElem(e)
                [] f.kind = "i64" -> I64Elem(e)
                [] OTHER -> F64Elem(e)

LeafClass(f, v) ==
  CASE v.k = "null" -> IF f.nullable THEN "good" ELSE "bad"
    [] v.k = "arr"  -> IF v.items = <<>> THEN "unspec" ELSE Worst({Elem(f, e) : e \in Elems(v)})
    [] OTHER        -> Elem(f, v)

VectorClass(f, v) ==
  CASE v.k = "null" -> "unspec"
    [] v.k = "arr"  -> IF Len(v.items) = f.dim /\ \A e \in Elems(v) : IsNum(e) THEN "good" ELSE "bad"
    [] OTHER        -> "bad"

RECURSIVE NestedClass(_, _), ObjClass(_, _)
NestedClass(f, v) ==
  CASE v.k = "null" -> IF f.nullable THEN "good" ELSE "bad"
    [] v.k = "obj"  -> ObjClass(f, v)
    [] v.k = "arr"  ->
         IF v.items = <<>> THEN "unspec"
         ELSE Worst({ CASE e.k = "obj"  -> ObjClass(f, e)
                        [] e.k = "null" -> "unspec"
                        [] OTHER        -> "bad"      \* arrays of arrays, scalars in the array
                      : e \in Elems(v) })
    [] OTHER        -> "bad"
ObjClass(f, o) ==
  Worst(  {"good"}
     \cup {"bad" : n \in Keys(o) \ FieldNames(f.props)}                   \* unknown property
     \cup {"bad" : n \in {p \in FieldNames(f.props) : ~Field(f.props, p).nullable} \ Keys(o)}
     \cup { LET p == Field(f.props, n) IN
              IF p.kind = "nested" THEN NestedClass(p, Get(o, n)) ELSE LeafClass(p, Get(o, n))
            : n \in Keys(o) \cap FieldNames(f.props) })

IdClass(s, d) == IF s.id \in Keys(d) /\ Get(d, s.id).k = "str" THEN "good" ELSE "bad"

TopClass(s, d, n) ==
  IF n \notin FieldNames(s.fields) THEN "bad"
  ELSE LET f == Field(s.fields, n) IN
       CASE f.kind = "nested" -> NestedClass(f, Get(d, n))
         [] f.kind = "vector" -> VectorClass(f, Get(d, n))
         [] OTHER             -> LeafClass(f, Get(d, n))

Class(s, d) ==
  LET w == Worst({IdClass(s, d)} \cup {TopClass(s, d, n) : n \in Keys(d) \ {s.id}})
  IN CASE w = "bad" -> "MustReject" [] w = "good" -> "MustAccept" [] OTHER -> "Unspecified"

-----------------------------------------------------------------------------
(* Commit-time collection, as built (segment.rs collect_document,          *)
(* collect_nested, collect_nested_object, collect_vector_value).  Leaf      *)
(* values are never a reason to fail: values of the wrong type are dropped. *)

CollectVector(f, v) ==
  \/ v.k = "null"
  \/ v.k = "arr" /\ Len(v.items) = f.dim /\ \A e \in Elems(v) : IsNum(e)

RECURSIVE CollectNested(_, _), CollectObj(_, _)
CollectNested(f, v) ==
  CASE v.k = "null" -> f.nullable
    [] v.k = "arr"  -> \A e \in Elems(v) : \/ e.k = "null" /\ f.nullable
                                           \/ e.k = "obj" /\ CollectObj(f, e)
    [] v.k = "obj"  -> CollectObj(f, v)
    [] OTHER        -> FALSE
CollectObj(f, o) ==
  /\ Keys(o) \subseteq FieldNames(f.props)
  /\ \A n \in Keys(o) :
        LET p == Field(f.props, n) IN
        p.kind = "nested" => IF Get(o, n).k = "null" THEN p.nullable ELSE CollectNested(p, Get(o, n))
  /\ \A n \in FieldNames(f.props) \ Keys(o) : Field(f.props, n).nullable

CollectAccepts(s, d) ==
  /\ s.id \in Keys(d) /\ IsStr(Get(d, s.id))
  /\ \A n \in Keys(d) \ {s.id} :
        /\ n \in FieldNames(s.fields)
        /\ LET f == Field(s.fields, n) IN
           CASE f.kind = "vector" -> CollectVector(f, Get(d, n))
             [] f.kind = "nested" -> CollectNested(f, Get(d, n))
             [] OTHER             -> TRUE

-----------------------------------------------------------------------------
(* Add-time validation (manifest.rs validate_document, validate_field_value,*)
(* NestedField::validate, NestedProperty::validate_value).  Dev selects the *)
(* deviations of the code as built; Dev = {} is the repaired validator.     *)

AddLeafTop(f, v) ==
  IF v.k = "null" THEN f.nullable
  ELSE CASE f.kind \in {"text", "keyword"} ->
              IsStr(v) \/ (v.k = "arr" /\ \A e \in Elems(v) : IsStr(e))
         [] f.kind = "i64" -> v.k = "int" \/ (v.k = "arr" /\ \A e \in Elems(v) : e.k = "int")
         [] OTHER          -> IsNum(v) \/ (v.k = "arr" /\ \A e \in Elems(v) : IsNum(e))

AddLeafNested(f, v, Dev) ==
  IF "S15c" \notin Dev THEN AddLeafTop(f, v)
  ELSE IF v.k = "null" THEN f.nullable
  ELSE IF f.kind \in {"text", "keyword"} THEN IsStr(v) \/ v.k = "arr"
  ELSE IsNum(v) \/ v.k = "arr"

RECURSIVE AddNested(_, _, _), AddObj(_, _, _)
AddNested(f, v, Dev) ==
  CASE v.k = "null" -> f.nullable
    [] v.k = "arr"  -> \A e \in Elems(v) :
                          IF "S15b" \in Dev THEN AddNested(f, e, Dev)
                          ELSE \/ e.k = "null" /\ f.nullable
                               \/ e.k = "obj" /\ AddObj(f, e, Dev)
    [] v.k = "obj"  -> AddObj(f, v, Dev)
    [] OTHER        -> FALSE
AddObj(f, o, Dev) ==
  /\ Keys(o) \subseteq FieldNames(f.props)
  /\ \A n \in Keys(o) :
        LET p == Field(f.props, n) IN
        IF p.kind = "nested"
          THEN IF Get(o, n).k = "null" THEN p.nullable ELSE AddNested(p, Get(o, n), Dev)
          ELSE AddLeafNested(p, Get(o, n), Dev)
  /\ \A n \in FieldNames(f.props) \ Keys(o) : Field(f.props, n).nullable

AddAccepts(s, d, Dev) ==
  /\ s.id \in Keys(d) /\ Get(d, s.id).k = "str"
  /\ \A n \in Keys(d) \ {s.id} :
        IF n \notin FieldNames(s.fields) THEN "S15a" \in Dev
        ELSE LET f == Field(s.fields, n) IN
             CASE f.kind = "nested" -> AddNested(f, Get(d, n), Dev)
               [] f.kind = "vector" -> ("S15d" \in Dev) \/ CollectVector(f, Get(d, n))
               [] OTHER             -> AddLeafTop(f, Get(d, n))

(* The deviations without which the as-built validator would have rejected d.*)
Necessary(s, d) == {x \in KnownDeviations : ~AddAccepts(s, d, KnownDeviations \ {x})}

-----------------------------------------------------------------------------
(* The theorems.                                                            *)
AddImpliesCommit(s, d, Dev) == AddAccepts(s, d, Dev) => CollectAccepts(s, d)
RejectWhenMust(s, d, Dev)   == Class(s, d) = "MustReject" => ~AddAccepts(s, d, Dev)
AcceptWhenMust(s, d, Dev)   == Class(s, d) = "MustAccept" => AddAccepts(s, d, Dev)
=============================================================================
