------------------------------- MODULE Vector -------------------------------
(***************************************************************************)
(* C29: vector and hybrid search (feature `vectors`).                     *)
(*                                                                         *)
(* Vectors have small integer components, so similarities are exact        *)
(* rationals and TLC (integers only, no square roots) judges them by       *)
(* squared / cross-multiplied comparisons:                                 *)
(*   cosine(q, v) = q.v / (|q| |v|)        L2 score = - sqrt(sum (q-v)^2)   *)
(* Observed scores come in fixed point with scale 1000 (`vs3`, `fs3`).     *)
(***************************************************************************)
EXTENDS Rank

VecOf(d, f) == Vals(d.vec, f)                    \* <<>> when the document has no vector
HasVec(d, f) == VecOf(d, f) # <<>>

RECURSIVE Dot(_, _)
Dot(a, b) == IF a = <<>> THEN 0 ELSE Head(a) * Head(b) + Dot(Tail(a), Tail(b))
Norm2(a) == Dot(a, a)
RECURSIVE Dist2(_, _)
Dist2(a, b) == IF a = <<>> THEN 0 ELSE (Head(a) - Head(b)) * (Head(a) - Head(b)) + Dist2(Tail(a), Tail(b))

Sq(x) == x * x
AbsV(x) == IF x >= 0 THEN x ELSE 0 - x

(* is the observed vector score (x1000, after dividing out the clause boost  *)
(* bn/bd) the exact similarity of q and v, within rounding                   *)
VecScoreOk(metric, q, v, vs3, bn, bd) ==
  LET s == (vs3 * bd) \div bn IN               \* similarity x1000
  IF metric = "cos" THEN
       LET d == Dot(q, v)  A == Norm2(q) * Norm2(v) IN
       IF A = 0 THEN AbsV(s) <= 2
       ELSE /\ (d > 0 => s > 0) /\ (d < 0 => s < 0)
            /\ AbsV(Sq(s) * A - Sq(d) * 1000000) <= (2 * AbsV(s) + 4) * A * 2
  ELSE LET dd == Dist2(q, v) IN
       /\ s <= 0
       /\ AbsV(Sq(s) - dd * 1000000) <= (2 * AbsV(s) + 4) * 2

(* exact comparison of similarities: TRUE when sim(q, a) > sim(q, b)        *)
SimGreater(metric, q, a, b) ==
  IF metric = "l2" THEN Dist2(q, a) < Dist2(q, b)
  ELSE LET da == Dot(q, a)  db == Dot(q, b)
           na == Norm2(a)   nb == Norm2(b)
           (* sign-aware squares of the cosines (the common factor |q|^2 cancels) *)
           ka == IF na = 0 THEN 0 ELSE da          kb == IF nb = 0 THEN 0 ELSE db
       IN IF ka >= 0 /\ kb < 0 THEN TRUE
          ELSE IF ka < 0 /\ kb >= 0 THEN FALSE
          ELSE IF ka = 0 /\ kb = 0 THEN FALSE
          ELSE IF ka >= 0 THEN (IF nb = 0 THEN ka > 0 ELSE IF na = 0 THEN FALSE ELSE Sq(ka) * nb > Sq(kb) * na)
          ELSE Sq(ka) * nb < Sq(kb) * na

Eligible(D, docs, e) ==
  {d \in docs : d.live /\ HasVec(d, e.f) /\ PassesAll(D, d, e.filters) /\ PassesAll(D, d, e.vfilters)}

ScoreDesc == <<[kind |-> "score", f |-> "_score", desc |-> TRUE]>>

(* vector-only request (one clause) *)
CheckVec(D, docs, e, l, scn) ==
  LET el == Eligible(D, docs, e)
      ids == e.obs.ids
      got == SeqToSet(ids)
      n == Len(ids)
      docOf(id) == LiveDoc(docs, id)
      want == MinI(e.limit, Cardinality(el))
      scoresOk == \A i \in DOMAIN ids :
                     VecScoreOk(e.metric, e.qv, VecOf(docOf(ids[i]), e.f), e.obs.vs3[i], e.bn, e.bd)
      (* final = (1 - alpha) * vector score for a vector-only request; alpha4 = 4 alpha *)
      blendOk == \A i \in DOMAIN ids :
                     AbsV(4 * e.obs.fs3[i] - (4 - e.alpha4) * e.obs.vs3[i]) <= 8
      nearest == \A d \in el : d.id \notin got =>
                     \A i \in DOMAIN ids : ~SimGreater(e.metric, e.qv, VecOf(d, e.f), VecOf(docOf(ids[i]), e.f))
  IN IF ~e.obs.ok THEN Tell("FAIL", e.prop, l, scn, e, "vector search returned an error", "")
     ELSE IF ~(NoDupSeqR(ids) /\ got \subseteq {d.id : d \in el})
       THEN Tell("FAIL", e.prop, l, scn, e, "a hit is deleted, has no vector in the field, or fails filter / vector_filter", "")
     ELSE IF n # want
       THEN Tell("FAIL", e.prop, l, scn, e, "wrong number of hits (eligible documents missing or limit exceeded)", "")
     ELSE IF ~scoresOk
       THEN Tell("FAIL", e.prop, l, scn, e, "vector_score is not the exact similarity times the clause boost", "")
     ELSE IF ~blendOk
       THEN Tell("FAIL", e.prop, l, scn, e, "score is not the documented blend (1 - alpha) * vector_score", "")
     ELSE IF ~Ordered(D, docs, ScoreDesc, ids, e.obs.sbits)
       THEN Tell("FAIL", e.prop, l, scn, e, "hits are not ordered by the blended score", "")
     ELSE IF ~nearest
       THEN Tell("FAIL", e.prop, l, scn, e, "a document nearer than a returned hit is missing (exact regime)", "")
     ELSE TRUE

(* hybrid: text query + one vector clause with 0 < alpha < 1.  `text` holds  *)
(* the observation of the same request without the vector clause.            *)
CheckHybrid(D, docs, e, l, scn) ==
  LET textIds == SeqToSet(e.text.ids)
      ids == e.obs.ids
      got == SeqToSet(ids)
      tscore(id) == e.text.scores[CHOOSE i \in DOMAIN e.text.ids : e.text.ids[i] = id]
      docOf(id) == LiveDoc(docs, id)
      withVec == {i \in DOMAIN ids : e.obs.hasv[i]}
      flagsOk == \A i \in DOMAIN ids :
                    e.obs.hasv[i] = (HasVec(docOf(ids[i]), e.f) /\ PassesAll(D, docOf(ids[i]), e.vfilters))
      scoresOk == \A i \in withVec :
                    VecScoreOk(e.metric, e.qv, VecOf(docOf(ids[i]), e.f), e.obs.vs3[i], 1, 1)
      (* final x1e4 = alpha * bm25 + (1 - alpha) * vec, alpha4 = 4 alpha; cosine: missing vector = -1 *)
      vecPart(i) == IF e.obs.hasv[i] THEN e.obs.vs3[i] * 10 ELSE 0 - 10000
      blendOk == \A i \in DOMAIN ids :
                    (e.obs.hasv[i] \/ e.metric = "cos") =>
                      AbsV(4 * e.obs.scores[i] - (e.alpha4 * tscore(ids[i]) + (4 - e.alpha4) * vecPart(i))) <= 120
  IN IF ~(e.obs.ok /\ e.text.ok) THEN Tell("FAIL", e.prop, l, scn, e, "hybrid search returned an error", "")
     ELSE IF ~(NoDupSeqR(ids) /\ got = textIds)
       THEN Tell("FAIL", e.prop, l, scn, e, "hybrid hits differ from the documents matching the text query and filter", "")
     ELSE IF ~flagsOk
       THEN Tell("FAIL", e.prop, l, scn, e, "vector_score present/absent inconsistently with the stored vectors and vector_filter", "")
     ELSE IF ~scoresOk
       THEN Tell("FAIL", e.prop, l, scn, e, "vector_score is not the exact similarity", "")
     ELSE IF ~blendOk
       THEN Tell("FAIL", e.prop, l, scn, e, "score is not alpha * text score + (1 - alpha) * vector score", "")
     ELSE IF ~Ordered(D, docs, ScoreDesc, ids, e.obs.sbits)
       THEN Tell("FAIL", e.prop, l, scn, e, "hits are not ordered by the blended score", "")
     ELSE TRUE

(* vectors of the wrong dimension are rejected, at indexing and at query time *)
CheckVecDim(e, l, scn) ==
  IF e.add_ok THEN Tell("FAIL", e.prop, l, scn, e, "a document with a vector of the wrong dimension was accepted", "")
  ELSE IF e.query_ok THEN Tell("FAIL", e.prop, l, scn, e, "a query vector of the wrong dimension was accepted", "")
  ELSE TRUE
=============================================================================
