-------------------------------- MODULE Wand --------------------------------
(***************************************************************************)
(* C09: the pruned top-k loop of query/wand.rs as a state machine over    *)
(* integer scores, checked against exhaustive evaluation.                 *)
(*                                                                         *)
(*   contrib[t][d]  contribution of term t to document d (0 = d is not in *)
(*                  t's posting list)                                      *)
(*   cur[t]         index into t's posting list (its documents in         *)
(*                  increasing order); Len+1 = exhausted                   *)
(*   heap           the current top-k: set of <<score, doc>>               *)
(*                                                                         *)
(* One Step is one iteration of `loop` in wand_loop: threshold, pivot      *)
(* selection over the terms ordered by current document using per-term     *)
(* (wand) or per-block (bmw) upper bounds, then either score the smallest  *)
(* document or advance the terms before the pivot to the pivot document.   *)
(* Adjust models a score hook (function_score, script_score,              *)
(* rank_feature): the final score of a document is its summed contribution *)
(* times mult[d].                                                          *)
(*                                                                         *)
(* Property at termination: the heap equals the exhaustive top-k including *)
(* tie-break (score descending, document ascending).                       *)
(***************************************************************************)
EXTENDS Integers, Sequences, FiniteSets, TLC

CONSTANTS Terms, NDocs, W, KMax, BlockSizes, Mults, Mode, NoPruneWithHook, StoredBlock
\* StoredBlock: granularity of the block-max metadata stored in the segment.  As built the stored
\*   metadata is reused only when the requested block size equals it and is rebuilt at the requested
\*   size otherwise (StoredBlock = 0 models that: metadata granularity = bsize).  StoredBlock = n > 0
\*   models the seeded change "reuse the finer stored metadata whenever bsize >= n" while the cursor
\*   arithmetic (BlockOf, SkipToBlock) keeps using bsize.
\* Mode: "wand" (per-term bounds) | "bmw_cur" (bound of the block the cursor is in - as built)
\*     | "bmw_safe" (maximum over the blocks that can still contribute before the pivot document)

VARIABLES contrib, mult, k, bsize, cur, heap, done, started

vars == <<contrib, mult, k, bsize, cur, heap, done, started>>

Docs == 1..NDocs
END == NDocs + 1

Postings(t) == LET S == {d \in Docs : contrib[t][d] > 0} IN
               [i \in 1..Cardinality(S) |-> CHOOSE d \in S : Cardinality({e \in S : e < d}) = i - 1]

DocAt(t) == IF cur[t] > Len(Postings(t)) THEN END ELSE Postings(t)[cur[t]]
Exhausted(t) == cur[t] > Len(Postings(t))

SetMaxOr0(S) == IF S = {} THEN 0 ELSE CHOOSE x \in S : \A y \in S : y <= x

TermUB(t) == SetMaxOr0({contrib[t][d] : d \in Docs})

BlockOf(i) == (i - 1) \div bsize                       \* 0-based block of posting index i
MetaGran == IF StoredBlock > 0 /\ bsize >= StoredBlock THEN StoredBlock ELSE bsize
MetaBlockOf(i) == (i - 1) \div MetaGran
BlockMax(t, b) == SetMaxOr0({contrib[t][Postings(t)[i]] : i \in {j \in DOMAIN Postings(t) : MetaBlockOf(j) = b}})
(* TermState::skip_to_block: partition_point over the last documents of the metadata blocks,    *)
(* then block index * bsize                                                                      *)
MetaBlocks(t) == {MetaBlockOf(j) : j \in DOMAIN Postings(t)}
MetaLastDoc(t, b) == SetMaxOr0({Postings(t)[j] : j \in {x \in DOMAIN Postings(t) : MetaBlockOf(x) = b}})
SkipToBlock(t, target) ==
  LET bi == Cardinality({b \in MetaBlocks(t) : MetaLastDoc(t, b) < target})
      start == bi * bsize + 1
  IN IF start > cur[t] THEN (IF start > Len(Postings(t)) + 1 THEN Len(Postings(t)) + 1 ELSE start) ELSE cur[t]

(* upper bound the pivot selection uses for term t *)
Bound(t) ==
  IF Mode \in {"wand", "bmw_safe"} THEN TermUB(t)
  ELSE BlockMax(t, BlockOf(cur[t]))                    \* "bmw_cur": current block only (as built, S09b)

(* "bmw_safe": block bounds are only used for the terms positioned ON the   *)
(* candidate document: their blocks contain it, so they bound its score.    *)
RECURSIVE BlockSum(_)
BlockSum(S) == IF S = {} THEN 0
               ELSE LET t == CHOOSE x \in S : TRUE IN BlockMax(t, BlockOf(cur[t])) + BlockSum(S \ {t})

Total(d) == LET ts == {t \in Terms : contrib[t][d] > 0}
                RECURSIVE Sum(_)
                Sum(S) == IF S = {} THEN 0 ELSE LET t == CHOOSE x \in S : TRUE IN contrib[t][d] + Sum(S \ {t})
            IN Sum(ts)

Final(d) == Total(d) * mult[d]

(* heap order: a is better than b *)
Better(a, b) == a[1] > b[1] \/ (a[1] = b[1] /\ a[2] < b[2])
Worst(h) == CHOOSE x \in h : \A y \in h : x = y \/ Better(y, x)
Threshold == IF Cardinality(heap) >= k THEN Worst(heap)[1] ELSE 0

PushTopK(h, x) ==
  LET h2 == h \cup {x} IN IF Cardinality(h2) > k THEN h2 \ {Worst(h2)} ELSE h2

(* terms ordered by current document (ties in any fixed order) *)
Live == {t \in Terms : ~Exhausted(t)}
Ordered == CHOOSE s \in [1..Cardinality(Live) -> Live] :
             /\ \A i, j \in DOMAIN s : i # j => s[i] # s[j]
             /\ \A i, j \in DOMAIN s : i < j => DocAt(s[i]) <= DocAt(s[j])

RECURSIVE Acc(_, _)
Acc(s, i) == IF i = 0 THEN 0 ELSE Bound(s[i]) + Acc(s, i - 1)

(* a score hook may raise scores above every BM25 bound: with a hook the    *)
(* repaired loop never prunes (NoPruneWithHook); as built it did (S09a)     *)
ScoreIsRaw == \A d \in Docs : mult[d] = 1
PivotThreshold == IF NoPruneWithHook /\ ~ScoreIsRaw THEN 0 ELSE Threshold

Pivot(s) == LET hits == {i \in DOMAIN s : Acc(s, i) >= PivotThreshold} IN
            IF hits = {} THEN 0 ELSE CHOOSE i \in hits : \A j \in hits : i <= j

AdvanceTo(t, target) ==      \* first posting index (from the block skip onwards) whose document is >= target
  LET P == Postings(t)
      from == IF Mode = "wand" THEN cur[t] ELSE SkipToBlock(t, target)
      ok == {i \in DOMAIN P : i >= from /\ P[i] >= target}
  IN IF ok = {} THEN Len(P) + 1 ELSE CHOOSE i \in ok : \A j \in ok : i <= j

Init ==
  /\ contrib \in [Terms -> [Docs -> 0..W]]
  /\ mult \in [Docs -> Mults]
  /\ k \in 1..KMax
  /\ bsize \in BlockSizes
  /\ cur = [t \in Terms |-> 1]
  /\ heap = {}
  /\ done = FALSE
  /\ started = FALSE

Step ==
  /\ ~done
  /\ started' = TRUE
  /\ UNCHANGED <<contrib, mult, k, bsize>>
  /\ IF Live = {} THEN done' = TRUE /\ UNCHANGED <<cur, heap>>
     ELSE LET s == Ordered
              p == Pivot(s)
          IN IF p = 0 THEN done' = TRUE /\ UNCHANGED <<cur, heap>>
             ELSE LET pd == DocAt(s[p])
                      sd == DocAt(s[1])
                  IN IF pd = sd
                       THEN (* score the smallest document with all terms positioned on it *)
                            LET here == {t \in Live : DocAt(t) = sd}
                                sc == Final(sd)
                                skip == /\ Mode = "bmw_safe" /\ ScoreIsRaw
                                        /\ Cardinality(heap) >= k /\ BlockSum(here) <= Threshold
                            IN /\ cur' = [t \in Terms |-> IF t \in here THEN cur[t] + 1 ELSE cur[t]]
                               /\ heap' = IF ~skip /\ (Cardinality(heap) < k \/ sc > Threshold)
                                            THEN PushTopK(heap, <<sc, sd>>) ELSE heap
                               /\ done' = FALSE
                       ELSE (* advance the terms before the pivot to the pivot document *)
                            /\ cur' = [t \in Terms |->
                                         IF \E i \in 1..(p - 1) : s[i] = t THEN AdvanceTo(t, pd) ELSE cur[t]]
                            /\ UNCHANGED heap
                            /\ done' = FALSE

Next == Step
Spec == Init /\ [][Next]_vars

(* exhaustive evaluation *)
Matching == {d \in Docs : \E t \in Terms : contrib[t][d] > 0}
RECURSIVE TopK(_, _)
TopK(S, n) == IF n = 0 \/ S = {} THEN {}
              ELSE LET best == CHOOSE x \in S : \A y \in S : x = y \/ Better(x, y) IN
                   {best} \cup TopK(S \ {best}, n - 1)
Exhaustive == TopK({<<Final(d), d>> : d \in Matching}, k)

PrunedEqualsExhaustive == done => heap = Exhaustive

(* termination: every step either finishes or moves a cursor forward *)
Progress == [][~done => (done' \/ \E t \in Terms : cur'[t] > cur[t])]_vars
=============================================================================
